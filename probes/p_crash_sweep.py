import os, sys, time, ctypes, json, shutil
import duckdb, fakesnow, snowflake.connector
lib = ctypes.CDLL(None); lib.fsv_count.restype=ctypes.c_long
D="/dev/shm/fsv_exp"
def writer(k, torn, w):
    with fakesnow.patch(db_path=D):
        c = snowflake.connector.connect(database="db1", schema="s1"); cur=c.cursor()
        cur.execute("create table t (a int, b varchar(10)) comment='hi'")
        cur.execute("insert into t values (1,'x')")
        lib.fsv_arm(ctypes.c_long(k), ctypes.c_int(torn))
        cur.execute("insert into t values (2,'y')")
        cur.execute("begin"); cur.execute("insert into t values (3,'z')"); cur.execute("update t set b='u' where a=1"); cur.execute("commit")
        cur.execute("create table t2 (a int) comment='c2'")
        cur.execute("insert into t2 select range from range(3000)")
        os.write(w, str(lib.fsv_count()).encode())
    os._exit(0)
def reader(w):
    try:
        with fakesnow.patch(db_path=D):
            c = snowflake.connector.connect(database="db1", schema="s1"); cur=c.cursor()
            rows = cur.execute("select * from t order by a").fetchall()
            try: n2 = cur.execute("select count(*) from t2").fetchall()[0][0]
            except Exception as e: n2 = "no t2"
            cm = cur.execute("select table_name, comment from information_schema.tables where table_schema='S1' order by 1").fetchall()
            os.write(w, json.dumps([rows, n2, cm]).encode())
    except BaseException as e:
        os.write(w, ("READER FAIL "+type(e).__name__+" "+str(e)[:200]).encode())
    os._exit(0)
def run(k, torn):
    shutil.rmtree(D, ignore_errors=True); os.makedirs(D)
    r,w=os.pipe(); pid=os.fork()
    if pid==0: os.close(r); writer(k,torn,w)
    os.close(w); _,st=os.waitpid(pid,0); n=os.read(r,100); os.close(r)
    r,w=os.pipe(); pid=os.fork()
    if pid==0: os.close(r); reader(w)
    os.close(w); os.waitpid(pid,0); out=os.read(r,65536).decode(); os.close(r)
    return os.WEXITSTATUS(st), n.decode(), out
st,n,out = run(-1,0); print("total events", n, out)
import collections
seen=collections.Counter()
for torn in (0,1):
    for k in range(1, int(n)+1):
        st,_,out = run(k,torn); seen[out]+=1
        if "FAIL" in out: print("k",k,"torn",torn,out)
for o,c in seen.items(): print(c, o)
shutil.rmtree(D, ignore_errors=True)
