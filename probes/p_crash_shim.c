#define _GNU_SOURCE
#include <dlfcn.h>
#include <unistd.h>
#include <stdlib.h>
#include <string.h>
#include <stdio.h>
#include <sys/types.h>
static long cnt=0, crash_at=-1; static int armed=0, torn=0;
void fsv_arm(long k, int t){ crash_at=k; cnt=0; armed=1; torn=t; }
long fsv_count(void){ return cnt; }
static void hit(void){ }
ssize_t pwrite(int fd, const void*buf, size_t n, off_t off){
  static ssize_t (*real)(int,const void*,size_t,off_t)=0; if(!real) real=dlsym(RTLD_NEXT,"pwrite");
  if(armed){ cnt++; if(cnt==crash_at){ if(torn){ size_t m = n>4096 ? (n/2/4096)*4096 : n/2; real(fd,buf,m,off);} _exit(137);} }
  return real(fd,buf,n,off);
}
ssize_t pwrite64(int fd, const void*buf, size_t n, off_t off){ return pwrite(fd,buf,n,off); }
ssize_t write(int fd, const void*buf, size_t n){
  static ssize_t (*real)(int,const void*,size_t)=0; if(!real) real=dlsym(RTLD_NEXT,"write");
  if(armed && fd>2){ cnt++; if(cnt==crash_at){ if(torn){ real(fd,buf,n/2);} _exit(137);} }
  return real(fd,buf,n);
}
int fsync(int fd){
  static int (*real)(int)=0; if(!real) real=dlsym(RTLD_NEXT,"fsync");
  if(armed){ cnt++; if(cnt==crash_at) _exit(137);} return real(fd);
}
int ftruncate(int fd, off_t l){
  static int (*real)(int,off_t)=0; if(!real) real=dlsym(RTLD_NEXT,"ftruncate");
  if(armed){ cnt++; if(cnt==crash_at) _exit(137);} return real(fd,l);
}
int unlink(const char*p){
  static int (*real)(const char*)=0; if(!real) real=dlsym(RTLD_NEXT,"unlink");
  if(armed){ cnt++; if(cnt==crash_at) _exit(137);} return real(p);
}
