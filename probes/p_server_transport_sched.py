import duckdb, threading, random, time, hashlib, sys, os, asyncio, io
from urllib.parse import urlsplit
real_connect = duckdb.connect
class Sched:
    def __init__(s, seed):
        s.rng = random.Random(seed); s.cv = threading.Condition()
        s.current = None; s.parked = {}; s.done=set(); s.log=[]; s.step=0; s.threads={}
    def yield_(s, what):
        me = threading.current_thread().name
        if me not in s.threads: return
        with s.cv:
            s.parked[me] = what; s.current = None; s.cv.notify_all()
            while s.current != me: s.cv.wait()
            del s.parked[me]
    def run(s, fns):
        for n,f in fns.items():
            def body(n=n,f=f):
                s.yield_("start")
                try: f()
                except Exception as e: s.log.append((n,"EXC",type(e).__name__,str(e)[:80]))
                with s.cv: s.done.add(n); s.current=None; s.cv.notify_all()
            s.threads[n]=threading.Thread(target=body, name=n)
        for th in s.threads.values(): th.start()
        with s.cv:
            while True:
                while s.current is not None or (len(s.parked)+len(s.done) < len(s.threads)):
                    if not s.cv.wait(30): raise RuntimeError("hang "+repr((s.current,s.parked,s.done)))
                if len(s.done)==len(s.threads): break
                pick = s.rng.choice(sorted(s.parked)); s.step+=1; s.log.append((s.step,pick,s.parked[pick]))
                s.current = pick; s.cv.notify_all()
        for th in s.threads.values(): th.join()
S=None
class P:
    def __init__(s, real): s._r=real
    def cursor(s): return P(s._r.cursor())
    def execute(s, sql, params=None):
        if S: S.yield_("E:"+sql.strip()[:30].replace("\n"," "))
        s._r.execute(sql) if params is None else s._r.execute(sql, params); return s
    def __getattr__(s,k): return getattr(s._r,k)
duckdb.connect = lambda *a, **k: P(real_connect(*a, **k))
import snowflake.connector
from snowflake.connector.vendored.requests.adapters import HTTPAdapter
from snowflake.connector.vendored.requests.models import Response
from snowflake.connector.vendored.requests.structures import CaseInsensitiveDict
import fakesnow.server as srv
from fakesnow.instance import FakeSnow
async def _inline(f, *a, **k): return f(*a, **k)
srv.run_in_threadpool = _inline
def asgi_send(self, request, **kw):
    u = urlsplit(request.url)
    if S and u.path.startswith(("/session","/queries")): S.yield_("T:"+u.path)
    body = request.body or b""
    if isinstance(body, str): body = body.encode()
    scope = {"type":"http","asgi":{"version":"3.0"},"http_version":"1.1","method":request.method,"scheme":"http","path":u.path,"raw_path":u.path.encode(),"query_string":u.query.encode(),
             "headers":[(k.lower().encode(), str(v).encode()) for k,v in request.headers.items()],"server":("sim",80),"client":("c",1)}
    sent=[False]
    async def receive():
        if not sent[0]: sent[0]=True; return {"type":"http.request","body":body,"more_body":False}
        return {"type":"http.disconnect"}
    out={"status":None,"headers":[],"body":b""}
    async def send(m):
        if m["type"]=="http.response.start": out["status"]=m["status"]; out["headers"]=m["headers"]
        elif m["type"]=="http.response.body": out["body"]+=m.get("body",b"")
    loop = asyncio.new_event_loop()
    try: loop.run_until_complete(srv.app(scope, receive, send))
    finally: loop.close()
    r = Response(); r.status_code=out["status"]; r.headers=CaseInsensitiveDict({k.decode():v.decode() for k,v in out["headers"]})
    r.raw = io.BytesIO(out["body"]); r._content = out["body"]; r.url=request.url; r.request=request; r.reason="OK"; r.encoding="utf-8"
    return r
HTTPAdapter.send = asgi_send
def one(seed):
    global S
    srv.shared_fs = FakeSnow(); srv.sessions.clear()
    S = Sched(seed)
    def sess(i):
        def f():
            c = snowflake.connector.connect(user="fake", password="snow", account="fakesnow", host="localhost", port=1, protocol="http",
                session_parameters={"CLIENT_OUT_OF_BAND_TELEMETRY_ENABLED": False}, database="db1", schema="s1", network_timeout=1, platform_detection_timeout_seconds=0)
            cur=c.cursor()
            cur.execute("create table if not exists shared (a int, who int)")
            for j in range(2): cur.execute(f"insert into shared values ({j},{i})")
            S.log.append((i, cur.execute("select count(*) from shared where who=%d"%i).fetchall()))
            c.close()
        return f
    S.run({f"s{i}":sess(i) for i in range(2)})
    log=S.log; st=S.step; S=None
    fin = srv.shared_fs.duck_conn.execute("select count(*) from db1.s1.shared").fetchall() if not any(len(x)>2 and x[1]=="EXC" for x in log) else None
    srv.shared_fs.duck_conn.close()
    return hashlib.sha256(repr(log).encode()).hexdigest()[:12], st, [x for x in log if len(x)>2 and x[1]=="EXC"], fin
t=time.time()
for seed in range(int(sys.argv[1])):
    a=one(seed); b=one(seed)
    if a[0]!=b[0]: print("NONDET", seed)
    print(seed, a)
print("runs/s", 2*int(sys.argv[1])/(time.time()-t), threading.enumerate())
