import fakesnow, snowflake.connector
from fakesnow.instance import FakeSnow
from snowflake.connector.cursor import DictCursor
def t(label, f):
    try: print(label, "->", f())
    except BaseException as e: print(label, "!!", type(e).__module__+"."+type(e).__name__, str(e)[:200].replace("\n"," | "))
fs = FakeSnow()
a = fs.connect("db1","s1"); b = fs.connect("db1","s1")
ca, cb = a.cursor(), b.cursor()
ca.execute("create table t(x int, y varchar)"); ca.execute("insert into t values (1,'a'),(2,'b'),(3,'c')")
ca.execute("select * from t order by x")
t("fetchone", ca.fetchone)
cb.execute("alter table t add column z int")
t("desc after other session alter", lambda: [d.name for d in ca.description])
t("rest rows", ca.fetchall)
cb.execute("drop table t")
t("desc after other session drop", lambda: [d.name for d in ca.description])
# fetch protocol
ca.execute("create table u(x int)"); ca.execute("insert into u select range from range(7)")
cur = a.cursor(); cur.execute("select x from u order by x"); cur.arraysize=3
t("fm()", cur.fetchmany); t("fm(2)", lambda: cur.fetchmany(2)); t("f1", cur.fetchone); t("fa", cur.fetchall); t("fa2", cur.fetchall); t("f1", cur.fetchone); t("fm", cur.fetchmany)
d = a.cursor(DictCursor); d.execute('select x as "a", x+1 as B, x as "a" from u order by x limit 2')
t("dict rows", d.fetchall); t("dict desc", lambda: [x.name for x in d.description])
t("rowcount select", lambda: (cur.execute("select * from u").rowcount))
t("pandas", lambda: cur.fetch_pandas_all().shape)
t("fetch after pandas", lambda: len(cur.fetchall()))
