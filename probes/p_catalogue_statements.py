import fakesnow, snowflake.connector
from fakesnow.instance import FakeSnow
def t(cur, sql):
    try:
        cur.execute(sql); r = cur.fetchall(); print(f"{sql!r:75} -> {r[:4]} rc={cur.rowcount}")
    except BaseException as e: print(f"{sql!r:75} !! {type(e).__name__} errno={getattr(e,'errno',None)} sqlstate={getattr(e,'sqlstate',None)} {str(e)[:110]!r}")
fs = FakeSnow()
a = fs.connect("db1","s1"); cur = a.cursor()
for s in ["create database db2", "create database db2", "create database if not exists db2", "create schema db2.s2", "create schema db2.s2", "create schema if not exists s1",
 "create table t (a int, b varchar(5) not null, c number(10,2), d float, e timestamp_ntz, f variant) comment='cm'",
 "create table t (a int)", "create or replace table t2 (a int)", "create table if not exists t2 (a int)", "create table t3 as select * from t", "create table t4 clone t",
 "create view v as select a from t", "create or replace view v as select a, b from t",
 "insert into t(a,b) values (1,'x'),(2,'y')", "insert into t(a,b) values (1)", "insert into t(a,b) values (3,null)", "insert into nope values (1)", "insert into t2 select a from t",
 "update t set a = a+1 where a > 1", "delete from t where a is null", "truncate table t2", "truncate table if exists nope",
 "select * from nope", "select nope from t", "select nofunc(a) from t", "select * from nos.t", "select * from nodb.s.t", "drop table nope", "drop table if exists nope", "drop view v", "drop schema db2.s2", "drop schema nope", "drop database db2", "drop database nope",
 "alter table t add column g int", "alter table t drop column g", "alter table t rename column a to aa", "alter table t rename to tt", "alter table tt set comment = 'new'", "comment on table tt is 'c2'",
 "use database nope", "use schema nope", "use schema db1.s1", "use database db1",
 "select current_database(), current_schema()",
 "show terse schemas", "show terse schemas in database db1", "show terse tables in schema db1.s1", "show terse objects in database db1", "describe table db1.s1.tt", "describe view db1.s1.v",
 "select table_catalog, table_schema, table_name, table_type, comment from db1.information_schema.tables where table_schema <> 'information_schema'",
 "select table_name, column_name, data_type, character_maximum_length, numeric_precision, numeric_scale, is_nullable from db1.information_schema.columns where table_schema = 'S1' order by 1, ordinal_position",
 "select database_name from db1.information_schema.databases", "select table_schema, table_name from db1.information_schema.views",
]:
    t(cur, s)
print(a.database, a.schema)
