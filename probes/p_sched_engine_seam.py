import duckdb, threading, random, time, hashlib, sys, os
real_connect = duckdb.connect
class Sched:
    def __init__(s, seed):
        s.rng = random.Random(seed); s.lock = threading.Lock(); s.cv = threading.Condition(s.lock)
        s.current = None; s.parked = {}; s.done=set(); s.log=[]; s.step=0; s.threads={}
    def yield_(s, what):
        me = threading.current_thread().name
        if me not in s.threads: return
        with s.cv:
            s.parked[me] = what
            s.current = None
            s.cv.notify_all()
            while s.current != me: s.cv.wait()
            del s.parked[me]
    def run(s, fns):
        for n,f in fns.items():
            def body(n=n,f=f):
                s.yield_("start")
                try: f()
                except Exception as e: s.log.append((n,"EXC",type(e).__name__,str(e)[:80]))
                with s.cv: s.done.add(n); s.current=None; s.cv.notify_all()
            th = threading.Thread(target=body, name=n); s.threads[n]=th
        for th in s.threads.values(): th.start()
        with s.cv:
            while True:
                while s.current is not None or (len(s.parked)+len(s.done) < len(s.threads)): s.cv.wait()
                if len(s.done)==len(s.threads): break
                pick = s.rng.choice(sorted(s.parked))
                s.step+=1; s.log.append((s.step,pick,s.parked[pick]))
                s.current = pick; s.cv.notify_all()
        for th in s.threads.values(): th.join()
S=None
class P:
    def __init__(s, real): s._r=real
    def cursor(s): return P(s._r.cursor())
    def execute(s, sql, params=None):
        if S: S.yield_(sql.strip()[:40].replace("\n"," "))
        s._r.execute(sql) if params is None else s._r.execute(sql, params); return s
    def __getattr__(s,k): return getattr(s._r,k)
duckdb.connect = lambda *a, **k: P(real_connect(*a, **k))
import fakesnow
from fakesnow.instance import FakeSnow
def one(seed):
    global S
    fs = FakeSnow(); 
    S = Sched(seed)
    def sess(i):
        def f():
            c = fs.connect(database="db1", schema="s1"); cur=c.cursor()
            cur.execute(f"create table if not exists t{i} (a int, b varchar(5)) comment='x'")
            for j in range(3): cur.execute(f"insert into t{i} values ({j},'v')")
            S.log.append((i, cur.execute(f"select count(*) from t{i}").fetchall()))
        return f
    S.run({f"s{i}":sess(i) for i in range(3)})
    log=S.log; steps=S.step; S=None
    fs.duck_conn.close()
    return hashlib.sha256(repr(log).encode()).hexdigest()[:12], steps, [x for x in log if len(x)>2 and x[1]=="EXC"]
t=time.time(); tot=0
for seed in range(int(sys.argv[1])):
    h1,st,ex = one(seed); h2,_,_ = one(seed); tot+=2*st
    if h1!=h2: print("NONDET", seed)
    if seed<6: print(seed,h1,st,ex[:2])
print("steps/s", tot/(time.time()-t), "runs/s", 2*int(sys.argv[1])/(time.time()-t))
