import fakesnow, snowflake.connector
from fakesnow.instance import FakeSnow
def t(cur, sql, p=None):
    try:
        cur.execute(sql, p); r = cur.fetchall(); print(f"{sql!r:75} -> {r[:6]} rc={cur.rowcount}")
    except BaseException as e: print(f"{sql!r:75} !! {type(e).__name__} errno={getattr(e,'errno',None)} sqlstate={getattr(e,'sqlstate',None)} {str(e)[:130]!r}")
fs = FakeSnow()
a = fs.connect("db1","s1"); cur = a.cursor(); b = fs.connect("db1","s1"); cb = b.cursor()
# merge mid-failure
t(cur, "create table tgt (id int, v varchar not null)"); t(cur, "create table src (id int, v varchar)")
t(cur, "insert into tgt values (1,'a'),(2,'b')"); t(cur, "insert into src values (1,'A'),(3,null)")
t(cur, "merge into tgt using src on tgt.id = src.id when matched then update set v = src.v when not matched then insert (id, v) values (src.id, src.v)")
t(cur, "select * from tgt order by id")
# dup target keys with target-side condition
t(cur, "create or replace table tgt (id int, v varchar)"); t(cur, "insert into tgt values (1,'a'),(1,'b'),(null,'n')"); t(cur, "create or replace table src (id int, v varchar)"); t(cur, "insert into src values (1,'S'),(null,'N')")
t(cur, "merge into tgt using src on tgt.id = src.id when matched and tgt.v = 'a' then delete when not matched then insert (id, v) values (src.id, src.v)")
t(cur, "select * from tgt order by id, v")
# merge in txn rollback
t(cur, "begin"); t(cur, "merge into tgt using src on tgt.id = src.id when matched then update set v = 'zz'"); t(cb, "select * from tgt order by id, v"); t(cur, "rollback"); t(cur, "select * from tgt order by id, v")
# b merges too: temp table per connection?
t(cb, "merge into tgt using src on tgt.id = src.id when matched then update set v = 'bb'")
t(cur, "select count(*) from merge_candidates"); 
# txn + DDL
t(cur, "begin"); t(cur, "create table txt (a int) comment = 'c'"); t(cb, "select * from txt"); t(cur, "rollback"); t(cur, "select * from txt")
t(cur, "select table_name, comment from information_schema.tables where table_name = 'TXT'")
t(cur, "select count(*) from db1.information_schema._fs_tables_ext")
# conflicts: same table different rows
t(cur, "create table sh (k int, v int)"); t(cur, "insert into sh values (1,0),(2,0)")
t(cur, "begin"); t(cb, "begin"); t(cur, "update sh set v = 1 where k = 1"); t(cb, "update sh set v = 2 where k = 2"); t(cur, "commit"); t(cb, "commit"); t(cur, "select * from sh order by k")
t(cur, "begin"); t(cb, "begin"); t(cur, "insert into sh values (3,3)"); t(cb, "insert into sh values (4,4)"); t(cur, "commit"); t(cb, "commit"); t(cur, "select * from sh order by k")
# begin inside begin
t(cur, "begin"); t(cur, "begin"); t(cur, "commit")
# executemany / params
t(cur, "insert into sh values (%s, %s)", (5, 6)); 
cur.executemany("insert into sh values (%s, %s)", [(7,7),(8,8)]); print("executemany rc", cur.rowcount, cur.fetchall())
