import fakesnow, snowflake.connector
from fakesnow.instance import FakeSnow
def t(label, f):
    try: print(label, "->", f())
    except BaseException as e: print(label, "!!", type(e).__module__+"."+type(e).__name__, str(e)[:160].replace("\n"," | "))
# C14
fs = FakeSnow(create_database_on_connect=False, create_schema_on_connect=True)
t("cd=F cs=T missing db", lambda: (lambda c: (c.database, c.schema, c.database_set, c.schema_set))(fs.connect("db9","s9")))
fs = FakeSnow()
t("mixed case", lambda: (lambda c: (c.database, c.schema, c.database_set, c.schema_set))(fs.connect("Db1","information_schema")))
# C13
a = fs.connect("db1","s1"); b = fs.connect("db1","s1")
ca, ca2, cb = a.cursor(), a.cursor(), b.cursor()
ca.execute("create table t(x int)")
t("begin", lambda: ca.execute("begin").fetchall())
ca.execute("insert into t values (1)")
t("a other cursor sees", lambda: ca2.execute("select * from t").fetchall())
t("b sees", lambda: cb.execute("select * from t").fetchall())
t("a.commit()", lambda: a.commit())
t("b sees", lambda: cb.execute("select * from t").fetchall())
t("commit noop", lambda: ca.execute("commit").fetchall())
t("rollback noop via conn", lambda: a.rollback())
# C03
t("use schema db.schema", lambda: (ca.execute("create database d2"), ca.execute("create schema d2.s2"), ca.execute("use schema d2.s2"), a.database, a.schema, ca.execute("select current_database(), current_schema()").fetchall()))
t("drop current schema", lambda: (ca.execute("drop schema d2.s2"), a.database, a.schema, a.schema_set))
t("after drop: create table", lambda: ca.execute("create table zz(i int)").fetchall())
# C16
t("execute_string", lambda: [c.fetchall() for c in b.execute_string("insert into t values (2); -- c\n insert into t values (3) /* ; */; select 'a;b', '--x', $$q;$$ ;")])
t("execute_string backslash", lambda: [c.fetchall() for c in b.execute_string(r"select 'a\\b', 'it''s', 'x\ny'")])
t("direct backslash", lambda: cb.execute(r"select 'a\\b', 'it''s', 'x\ny'").fetchall())
# C07 closed
b.close()
t("closed", lambda: cb.execute("select 1"))
t("closed cursor()", lambda: b.cursor().execute("select 1"))
t("fetch before execute", lambda: a.cursor().fetchall())
t("fetchone before execute", lambda: a.cursor().fetchone())
