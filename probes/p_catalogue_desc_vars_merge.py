import fakesnow, snowflake.connector, traceback
from snowflake.connector.cursor import DictCursor
def t(label, f):
    try: print(label, "->", f())
    except Exception as e: print(label, "!!", type(e).__module__+"."+type(e).__name__, str(e)[:150].replace("\n"," | "))
with fakesnow.patch():
    c = snowflake.connector.connect(database="db1", schema="s1")
    cur = c.cursor()
    def ex(sql, p=None): 
        cur.execute(sql, p); return cur.fetchall(), cur.rowcount
    def desc(sql):
        cur.execute(sql); return [(d.name, d.type_code) for d in cur.description]
    t("create", lambda: ex("create table t (a int, b varchar)"))
    for s in ["begin", "commit", "rollback", "use schema s1", "use database db1", "set v = 1", "truncate table t", "select random(42)", "select * from t sample (50) seed (1)", "alter table t add column c int", "show tables", "describe table t", "insert into t(a) values (1)", "delete from t", "drop table if exists zz", "create view v1 as select * from t", "comment on table t is 'x'", "unset v", "show schemas", "create schema s9", "show primary keys"]:
        t("desc after: "+s, lambda: desc(s))
    t("describe() insert", lambda: cur.describe("insert into t(a) values (77)"))
    t("after describe insert", lambda: ex("select count(*) from t"))
    t("describe() select", lambda: cur.describe("select a, b from t"))
    # variables
    t("set var1", lambda: ex("set var1 = 5")); t("set var10", lambda: ex("set var10 = 7"))
    t("select $var10", lambda: ex("select $var10")); t("select $VAR1", lambda: ex("select $VAR1"))
    t("string with $", lambda: ex("select 'cost $5'")); t("string with $var1", lambda: ex("select '$var1'"))
    t("$$ string", lambda: ex("select $$a b$$"))
    t("undefined", lambda: ex("select $nope"))
    # merge
    ex("create table tgt (id int, v varchar)"); ex("create table src (id int, v varchar)")
    ex("insert into tgt values (1,'a'),(2,'b')"); ex("insert into src values (2,'B'),(3,'C')")
    t("merge", lambda: ex("merge into tgt using src on tgt.id = src.id when matched then update set v = src.v when not matched then insert (id, v) values (src.id, src.v)"))
    t("merge_candidates visible", lambda: ex("select * from merge_candidates"))
    t("show tables", lambda: ex("show terse tables"))
    t("show tables in account", lambda: ex("show terse tables in account"))
    t("tgt", lambda: ex("select * from tgt order by id"))
    t("merge nomatch", lambda: ex("merge into tgt using (select * from src where id > 100) s on tgt.id = s.id when matched then delete"))
