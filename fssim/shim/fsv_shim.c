/* fsv_shim.so - LD_PRELOAD syscall seam for crash points inside engine calls (DESIGN.md S4).
 *
 * Counts write/pwrite/fsync/fdatasync/ftruncate/unlink/rename calls that touch files under an armed
 * path prefix and, at call number K, either _exit(137)s before the call or performs a torn write (a
 * page-aligned prefix of the buffer, what a fatal signal can leave of a large write) and _exit(137)s.
 * Modes 2 and 3 inject disk errors instead of a crash: mode 2 fails call K once with EIO, mode 3 is a
 * full disk - from call K on every write/pwrite/ftruncate fails with ENOSPC (the process lives on).
 * Unarmed (the default) it only forwards.  Armed per forked child through ctypes: fsv_arm(prefix, K, mode).
 */
#include <errno.h>
#define _GNU_SOURCE
#include <dlfcn.h>
#include <fcntl.h>
#include <limits.h>
#include <stdarg.h>
#include <stdio.h>
#include <stdlib.h>
#include <string.h>
#include <sys/types.h>
#include <unistd.h>

static volatile long cnt = 0, crash_at = -1, failed = 0;
static volatile int armed = 0, torn = 0;
static char prefix[PATH_MAX];
static size_t prefix_len = 0;
static int trace_fd = -1;

void fsv_arm(const char *p, long k, int t) {
  strncpy(prefix, p, sizeof(prefix) - 1);
  prefix_len = strlen(prefix);
  crash_at = k; cnt = 0; torn = t; failed = 0; armed = 1;
}
long fsv_failed(void) { return failed; }
void fsv_disarm(void) { armed = 0; }
long fsv_count(void) { return cnt; }
void fsv_trace(int fd) { trace_fd = fd; }

static int fd_under_prefix(int fd) {
  char link[64], path[PATH_MAX];
  if (!armed || fd < 0) return 0;
  snprintf(link, sizeof link, "/proc/self/fd/%d", fd);
  ssize_t n = readlink(link, path, sizeof(path) - 1);
  if (n <= 0) return 0;
  path[n] = 0;
  return strncmp(path, prefix, prefix_len) == 0;
}
static int path_under_prefix(const char *p) {
  char buf[PATH_MAX];
  if (!armed || !p) return 0;
  if (p[0] != '/') { if (!realpath(p, buf)) return 0; p = buf; }
  return strncmp(p, prefix, prefix_len) == 0;
}
ssize_t syscall_write(int fd, const void *b, size_t n);
static void note(const char *what, long n) {
  if (trace_fd >= 0) { char b[96]; int l = snprintf(b, sizeof b, "%ld %s %ld\n", cnt, what, n); if (l > 0) { ssize_t r = syscall_write(trace_fd, b, l); (void)r; } }
}
/* returns 1 when the crash point is this call, 2 when this call is to fail with errno set */
static int hit(const char *what, long n, int space) {
  cnt++;
  note(what, n);
  if (crash_at < 0) return 0;
  if (torn == 2) { if (cnt == crash_at) { failed++; errno = EIO; return 2; } return 0; }
  if (torn == 3) { if (cnt >= crash_at && space) { failed++; errno = ENOSPC; return 2; } return 0; }
  return cnt == crash_at;
}

static ssize_t (*real_write)(int, const void *, size_t);
ssize_t syscall_write(int fd, const void *b, size_t n) {
  if (!real_write) real_write = dlsym(RTLD_NEXT, "write");
  return real_write(fd, b, n);
}

ssize_t write(int fd, const void *buf, size_t n) {
  if (!real_write) real_write = dlsym(RTLD_NEXT, "write");
  int h = fd_under_prefix(fd) ? hit("write", (long)n, 1) : 0;
  if (h == 2) return -1;
  if (h) {
    if (torn) { size_t m = n > 4096 ? (n / 2 / 4096) * 4096 : n / 2; if (m) { ssize_t r = real_write(fd, buf, m); (void)r; } }
    _exit(137);
  }
  return real_write(fd, buf, n);
}
static ssize_t do_pwrite(int fd, const void *buf, size_t n, off_t off) {
  static ssize_t (*real)(int, const void *, size_t, off_t) = 0;
  if (!real) real = dlsym(RTLD_NEXT, "pwrite64");
  if (!real) real = dlsym(RTLD_NEXT, "pwrite");
  int h = fd_under_prefix(fd) ? hit("pwrite", (long)n, 1) : 0;
  if (h == 2) return -1;
  if (h) {
    if (torn) { size_t m = n > 4096 ? (n / 2 / 4096) * 4096 : n / 2; if (m) { ssize_t r = real(fd, buf, m, off); (void)r; } }
    _exit(137);
  }
  return real(fd, buf, n, off);
}
ssize_t pwrite(int fd, const void *buf, size_t n, off_t off) { return do_pwrite(fd, buf, n, off); }
ssize_t pwrite64(int fd, const void *buf, size_t n, off_t off) { return do_pwrite(fd, buf, n, off); }
int fsync(int fd) {
  static int (*real)(int) = 0; if (!real) real = dlsym(RTLD_NEXT, "fsync");
  int h = fd_under_prefix(fd) ? hit("fsync", 0, 0) : 0;
  if (h == 2) return -1;
  if (h) _exit(137);
  return real(fd);
}
int fdatasync(int fd) {
  static int (*real)(int) = 0; if (!real) real = dlsym(RTLD_NEXT, "fdatasync");
  int h = fd_under_prefix(fd) ? hit("fdatasync", 0, 0) : 0;
  if (h == 2) return -1;
  if (h) _exit(137);
  return real(fd);
}
static int do_ftruncate(int fd, off_t l) {
  static int (*real)(int, off_t) = 0; if (!real) real = dlsym(RTLD_NEXT, "ftruncate64");
  if (!real) real = dlsym(RTLD_NEXT, "ftruncate");
  int h = fd_under_prefix(fd) ? hit("ftruncate", (long)l, 1) : 0;
  if (h == 2) return -1;
  if (h) _exit(137);
  return real(fd, l);
}
int ftruncate(int fd, off_t l) { return do_ftruncate(fd, l); }
int ftruncate64(int fd, off_t l) { return do_ftruncate(fd, l); }
int unlink(const char *p) {
  static int (*real)(const char *) = 0; if (!real) real = dlsym(RTLD_NEXT, "unlink");
  int h = path_under_prefix(p) ? hit("unlink", 0, 0) : 0;
  if (h == 2) return -1;
  if (h) _exit(137);
  return real(p);
}
int rename(const char *a, const char *b) {
  static int (*real)(const char *, const char *) = 0; if (!real) real = dlsym(RTLD_NEXT, "rename");
  int h = (path_under_prefix(a) || path_under_prefix(b)) ? hit("rename", 0, 0) : 0;
  if (h == 2) return -1;
  if (h) _exit(137);
  return real(a, b);
}
