"""Seams and scheduler of the simulator (DESIGN.md section 2).

S1  engine-call seam   duckdb.connect -> SimDuck proxy (event, pre-emption and fault point)
S6  lock seam          threading.Lock/RLock created *by fakesnow code* -> SimLock (scheduler aware)
    baton scheduler    real threads, exactly one runs, the PRNG / the replay file decides who

Nothing here imports fakesnow at module import time; call install() first.
"""

from __future__ import annotations

import _thread
import hashlib
import json
import os
import re
import sys
import threading
from collections import Counter
from typing import Any, Callable

REPO = os.environ.get("FSSIM_REPO", "/repo")

_installed = False
_real_connect = None
SIM: "Sim | None" = None  # the world of the run in progress (one per process at a time)


class HarnessError(Exception):
    """The simulator itself failed (seam bypassed, non-parking thread ...). Never a verdict."""


class SimCrash(BaseException):
    """Raised inside a forked child to unwind when a crash point fires in 'raise' mode."""


# --------------------------------------------------------------------------- install


def install() -> None:
    """Put the seams in place and make `import fakesnow` resolve to REPO's working tree."""
    global _installed, _real_connect
    if _installed:
        return
    os.environ.pop("FAKESNOW_DEBUG", None)
    if REPO not in sys.path[:1]:
        sys.path.insert(0, REPO)
    import duckdb

    _real_connect = duckdb.connect

    def sim_connect(*a: Any, **k: Any) -> "SimDuck":
        # the engine's internal parallelism is below the seam (DESIGN.md section 10): one engine thread per
        # instance keeps 16 worker processes from oversubscribing the cores; an explicit setting is respected
        if os.environ.get("FSSIM_ENGINE_THREADS", "1") != "0":
            cfg = dict(k.get("config") or {})
            cfg.setdefault("threads", int(os.environ.get("FSSIM_ENGINE_THREADS", "1")))
            k["config"] = cfg
        return SimDuck(_real_connect(*a, **k), root=True)

    duckdb.connect = sim_connect

    _real_lock, _real_rlock = threading.Lock, threading.RLock

    def _by_fakesnow() -> bool:
        f = sys._getframe(2)
        return str(f.f_globals.get("__name__", "")).split(".")[0] == "fakesnow"

    def lock_factory(*a: Any, **k: Any):  # noqa: ANN202
        return SimLock(False) if _by_fakesnow() else _real_lock(*a, **k)

    def rlock_factory(*a: Any, **k: Any):  # noqa: ANN202
        return SimLock(True) if _by_fakesnow() else _real_rlock(*a, **k)

    threading.Lock = lock_factory  # type: ignore[assignment]
    threading.RLock = rlock_factory  # type: ignore[assignment]

    import logging

    logging.getLogger("sqlglot").setLevel(logging.ERROR)
    import fakesnow

    here = os.path.realpath(fakesnow.__file__)
    if not here.startswith(os.path.realpath(REPO) + os.sep):
        raise HarnessError(f"fakesnow imported from {here}, expected under {REPO}")
    _installed = True


# --------------------------------------------------------------------------- the run's world


_WS = re.compile(r"\s+")
_SCRATCH = re.compile(r"/[\w/.-]*fssim-\d+-[\w.-]+")


class Sim:
    """State of one simulated run: logical clock, event log, scheduler, fault plan, probes."""

    def __init__(self, scratch: str | None = None) -> None:
        self.seq = 0
        self.log: list[Any] = []
        self.engine_events = 0
        self.tls = threading.local()
        self.sched: Baton | None = None
        self.fault: Callable[[int, str, str], None] | None = None  # (event index, phase, sql)
        self.probes: Counter[str] = Counter()
        self.scratch = scratch
        self.trace_sql = False
        self.on_event: Callable[[str, str, str], None] | None = None  # (session, kind, sql)

    # -- identity of the simulated actor running on this thread
    def session(self) -> str:
        return getattr(self.tls, "sid", "main")

    def set_session(self, sid: str) -> None:
        self.tls.sid = sid

    def quiet(self) -> "_Quiet":
        return _Quiet(self)

    def is_quiet(self) -> bool:
        return getattr(self.tls, "quiet", 0) > 0

    def tick(self) -> int:
        self.seq += 1
        return self.seq

    def scrub(self, text: str) -> str:
        t = _WS.sub(" ", text).strip()
        if self.scratch:
            t = t.replace(self.scratch, "<D>")
        return _SCRATCH.sub("<D>", t)  # scratch paths carry the pid: never part of the event log

    def note(self, *rec: Any) -> None:
        """Append to the event log (never draws randomness, never reads a clock)."""
        self.log.append(rec)

    def digest(self) -> str:
        return hashlib.sha256(json.dumps(self.log, sort_keys=True, default=repr).encode()).hexdigest()[:16]

    # -- S1 callback
    def engine_event(self, kind: str, sql: str) -> int:
        if self.is_quiet():
            return -1
        self.engine_events += 1
        idx = self.engine_events
        sid = self.session()
        text = self.scrub(sql)[:160]
        if self.sched is not None:
            self.sched.yield_point(("E", kind, text[:60]))
            self.sched.window[sid] = bool(WINDOW_PAT.search(text))
        self.seq += 1
        self.log.append((self.seq, sid, "E", kind, text if self.trace_sql else text[:60]))
        if self.on_event is not None:
            self.on_event(sid, kind, text)
        if self.fault is not None:
            self.fault(idx, "before", text)
        return idx

    def engine_done(self, idx: int, sql: str) -> None:
        if idx > 0 and self.fault is not None:
            self.fault(idx, "after", sql)


class _Quiet:
    def __init__(self, sim: Sim) -> None:
        self.sim = sim

    def __enter__(self) -> None:
        self.sim.tls.quiet = getattr(self.sim.tls, "quiet", 0) + 1

    def __exit__(self, *a: Any) -> None:
        self.sim.tls.quiet -= 1


_PLAIN = (int, float, str, bool, bytes, type(None), list, dict, set, tuple, frozenset)
_BASELINE: dict[tuple[str, str, str], Any] = {}


def _plain(v: Any, depth: int = 0) -> bool:
    if isinstance(v, (int, float, str, bool, bytes, type(None))):
        return True
    if depth > 4:
        return False
    if isinstance(v, (list, tuple, set, frozenset)):
        return all(_plain(x, depth + 1) for x in v)
    if isinstance(v, dict):
        return all(_plain(k, depth + 1) and _plain(x, depth + 1) for k, x in v.items())
    return False


def reset_repo_state() -> int:
    """One run must not see what an earlier run in the same worker left behind in fakesnow's MODULE-level or CLASS-level
    data (counters, caches, registries, shared sqlglot expressions a change may introduce or mutate): the first sight
    of each such attribute is its baseline, every later run starts from a copy of it. Returns how many were restored."""
    import copy
    import sys

    try:
        from sqlglot import exp as _exp
    except ImportError:  # pragma: no cover
        _exp = None  # type: ignore[assignment]
    restored = 0
    for mname, mod in list(sys.modules.items()):
        if mod is None or not (mname == "fakesnow" or mname.startswith("fakesnow.")):
            continue
        owners: list[tuple[str, Any]] = [("", mod)]
        for cname, c in list(vars(mod).items()):
            if isinstance(c, type) and getattr(c, "__module__", None) == mname:
                owners.append((cname, c))
            elif not isinstance(c, type) and str(getattr(type(c), "__module__", "")).startswith("fakesnow") and hasattr(c, "__dict__"):
                owners.append(("=" + cname, c))  # a module-level instance of one of fakesnow's own classes (registry, counter, ...)
        for oname, owner in owners:
            for attr, val in list(vars(owner).items()):
                if attr.startswith("__"):
                    continue
                key = (mname, oname, attr)
                is_expr = _exp is not None and isinstance(val, _exp.Expression)
                if not is_expr and not (isinstance(val, _PLAIN) and _plain(val)):
                    continue
                if key not in _BASELINE:
                    _BASELINE[key] = (val.copy(), sorted(val.args)) if is_expr else copy.deepcopy(val)
                    continue
                base = _BASELINE[key]
                try:
                    if is_expr:
                        b, keys = base
                        if sorted(val.args) != keys or val.sql() != b.sql():
                            fresh = b.copy()
                            val.args.clear()
                            for k2, v2 in list(fresh.args.items()):
                                val.set(k2, v2)
                            restored += 1
                    elif type(val) is not type(base) or val != base:
                        if isinstance(val, dict) and isinstance(base, dict):
                            val.clear()
                            val.update(copy.deepcopy(base))
                        elif isinstance(val, list) and isinstance(base, list):
                            val[:] = copy.deepcopy(base)
                        elif isinstance(val, set) and isinstance(base, set):
                            val.clear()
                            val.update(copy.deepcopy(base))
                        else:
                            setattr(owner, attr, copy.deepcopy(base))
                        restored += 1
                except BaseException:  # noqa: BLE001, S110
                    pass  # read-only or exotic attribute: leave it
    return restored


def begin(scratch: str | None = None) -> Sim:
    global SIM
    n = reset_repo_state()
    SIM = Sim(scratch)
    if n:
        SIM.probes["module_state_restored"] += n
    return SIM


def end() -> None:
    global SIM
    SIM = None


# --------------------------------------------------------------------------- S1 proxy


class SimDuck:
    """Forwarding proxy around a DuckDBPyConnection; every engine call is an event."""

    __slots__ = ("_r", "_root")

    def __init__(self, real: Any, root: bool = False) -> None:
        object.__setattr__(self, "_r", real)
        object.__setattr__(self, "_root", root)

    # events ---------------------------------------------------------------
    def execute(self, query: Any, parameters: Any = None, *a: Any, **k: Any) -> "SimDuck":
        sim = SIM
        idx = sim.engine_event("execute", str(query)) if sim is not None else -1
        if parameters is None:
            self._r.execute(query, *a, **k)
        else:
            self._r.execute(query, parameters, *a, **k)
        if idx > 0:
            sim.engine_done(idx, "")  # type: ignore[union-attr]
        return self

    def executemany(self, query: Any, parameters: Any = None, *a: Any, **k: Any) -> "SimDuck":
        sim = SIM
        idx = sim.engine_event("executemany", str(query)) if sim is not None else -1
        self._r.executemany(query, parameters, *a, **k)
        if idx > 0:
            sim.engine_done(idx, "")  # type: ignore[union-attr]
        return self

    def sql(self, query: Any, *a: Any, **k: Any) -> Any:
        sim = SIM
        idx = sim.engine_event("sql", str(query)) if sim is not None else -1
        r = self._r.sql(query, *a, **k)
        if idx > 0:
            sim.engine_done(idx, "")  # type: ignore[union-attr]
        return r

    query = sql

    def cursor(self) -> "SimDuck":
        sim = SIM
        if sim is not None:
            sim.engine_event("cursor", "")
        return SimDuck(self._r.cursor())

    def close(self) -> None:
        sim = SIM
        if sim is not None:
            sim.engine_event("close", "")
        self._r.close()

    # everything else is forwarded untouched (fetch*, description, ...)
    def __getattr__(self, name: str) -> Any:
        return getattr(self._r, name)

    def __setattr__(self, name: str, value: Any) -> None:
        setattr(self._r, name, value)

    def __enter__(self) -> "SimDuck":
        return self

    def __exit__(self, *a: Any) -> None:
        self.close()


def find_instance() -> Any:
    """The FakeSnow instance behind the currently patched snowflake.connector.connect (observer use only).
    First the documented mock wiring (side_effect = instance.connect); if patch() is refactored, the newest live
    FakeSnow object found by the garbage collector."""
    import gc

    import snowflake.connector

    fn = snowflake.connector.connect
    for cand in (getattr(fn, "side_effect", None), getattr(fn, "_mock_wraps", None), fn):
        inst = getattr(cand, "__self__", None)
        if inst is not None and hasattr(inst, "duck_conn"):
            return inst
    found = [o for o in gc.get_objects() if type(o).__name__ == "FakeSnow" and hasattr(o, "duck_conn")]
    if not found:
        raise HarnessError("no FakeSnow instance found behind the patched connector")
    return found[-1]


def raw(conn: Any) -> Any:
    """The real DuckDB connection under a proxy (observer use only)."""
    return conn._r if isinstance(conn, SimDuck) else conn


# --------------------------------------------------------------------------- S6 locks


class SimLock:
    """Lock handed to fakesnow code. Under the baton scheduler a contended acquire parks the thread
    as *blocked* (not runnable) instead of blocking the OS thread; otherwise it is a plain lock."""

    def __init__(self, reentrant: bool) -> None:
        self.reentrant = reentrant
        self.owner: str | None = None
        self.count = 0
        self._real = _thread.RLock() if reentrant else _thread.allocate_lock()

    def acquire(self, blocking: bool = True, timeout: float = -1) -> bool:
        sim = SIM
        sched = sim.sched if sim is not None else None
        if sched is None or not sched.managed():
            return self._real.acquire(blocking, timeout)
        me = sim.session()  # type: ignore[union-attr]
        while self.owner is not None and not (self.reentrant and self.owner == me):
            if not blocking:
                return False
            sim.probes["lock_contended"] += 1  # type: ignore[union-attr]
            sched.block_on(self)
        self.owner = me
        self.count += 1
        return True

    def release(self) -> None:
        sim = SIM
        sched = sim.sched if sim is not None else None
        if sched is None or not sched.managed():
            self._real.release()
            return
        self.count -= 1
        if self.count <= 0:
            self.count = 0
            self.owner = None
            sched.unblock(self)

    def locked(self) -> bool:
        return self.owner is not None or (hasattr(self._real, "locked") and self._real.locked())

    def __enter__(self) -> bool:
        return self.acquire()

    def __exit__(self, *a: Any) -> None:
        self.release()


# --------------------------------------------------------------------------- baton scheduler


class Baton:
    """Real threads, one baton. A thread gives the baton back only at yield points (engine events,
    operation boundaries, contended SimLocks); `choose` decides who gets it next."""

    PARK_TIMEOUT = 60.0

    def __init__(self, sim: Sim, choose: Callable[[list[str], "Baton"], str]) -> None:
        self.sim = sim
        self.choose = choose
        self.cv = threading.Condition(_thread.allocate_lock())
        self.current: str | None = None
        self.parked: dict[str, Any] = {}
        self.blocked: dict[str, SimLock] = {}
        self.done: set[str] = set()
        self.threads: dict[str, threading.Thread] = {}
        self.errors: dict[str, BaseException] = {}
        self.choices: list[str] = []
        self.last: str | None = None
        self.preemptions = 0
        self.decisions = 0
        self.deadlock = False
        self.window: dict[str, bool] = {}  # did the event this session executed last open a race window?

    def managed(self) -> bool:
        return threading.current_thread().name in self.threads

    def spawn(self, name: str, fn: Callable[[], None]) -> None:
        def body() -> None:
            self.sim.set_session(name)
            self.yield_point(("start",))
            try:
                fn()
            except BaseException as e:  # noqa: BLE001
                self.errors[name] = e
            with self.cv:
                self.done.add(name)
                self.current = None
                self.cv.notify_all()

        self.threads[name] = threading.Thread(target=body, name=name, daemon=True)

    def yield_point(self, what: Any) -> None:
        me = threading.current_thread().name
        if me not in self.threads:
            return
        with self.cv:
            self.parked[me] = what
            self.current = None
            self.cv.notify_all()
            while self.current != me:
                self.cv.wait()
            del self.parked[me]

    def block_on(self, lock: SimLock) -> None:
        me = threading.current_thread().name
        with self.cv:
            self.blocked[me] = lock
        self.yield_point(("L",))

    def unblock(self, lock: SimLock) -> None:
        with self.cv:
            for n in [n for n, l in self.blocked.items() if l is lock]:
                del self.blocked[n]

    def run(self) -> None:
        for th in self.threads.values():
            th.start()
        n = len(self.threads)
        with self.cv:
            while True:
                while self.current is not None or (len(self.parked) + len(self.done) < n):
                    if not self.cv.wait(self.PARK_TIMEOUT):
                        raise HarnessError(
                            f"thread did not park: current={self.current} parked={sorted(self.parked)} done={sorted(self.done)}"
                        )
                if len(self.done) == n:
                    break
                runnable = sorted(x for x in self.parked if x not in self.blocked)
                if not runnable:
                    self.deadlock = True
                    break
                pick = self.choose(runnable, self)
                if pick not in runnable:
                    raise HarnessError(f"scheduler chose non-runnable {pick} from {runnable}")
                self.decisions += 1
                if self.last is not None and pick != self.last and self.last in runnable:
                    # the previous holder could have continued: a pre-emption
                    if self.parked.get(self.last, ("",))[0] == "E":
                        self.preemptions += 1
                self.choices.append(pick)
                self.last = pick
                self.current = pick
                self.cv.notify_all()
        if not self.deadlock:
            for th in self.threads.values():
                th.join(self.PARK_TIMEOUT)


# --------------------------------------------------------------------------- strategies


def strategy(kind: str, rng: Any, explicit: list[str] | None = None, depth: int = 2, horizon: int = 80):
    """Return choose(runnable, baton). `explicit` (a replay) wins while it lasts and stays valid."""
    pos = [0]
    prio: dict[str, float] = {}
    stall: dict[str, Any] = {"victim": None, "at": 0, "seen": 0}
    change_at = sorted(rng.randrange(1, horizon) for _ in range(depth)) if kind == "pct" else []

    def fallback(runnable: list[str], b: Baton) -> str:
        return b.last if b.last in runnable else runnable[0]

    def choose(runnable: list[str], b: Baton) -> str:
        if explicit is not None:
            i = pos[0]
            pos[0] += 1
            if i < len(explicit) and explicit[i] in runnable:
                return explicit[i]
            return fallback(runnable, b)
        if kind == "random":
            return rng.choice(runnable)
        if kind == "serial":
            if b.last in runnable and b.parked[b.last][0] in ("E", "L"):
                return b.last  # mid-operation: run to the operation's end
            return rng.choice(runnable)
        if kind == "targeted":
            if b.last in runnable and b.parked[b.last][0] == "E":
                if b.window.get(b.last) and len(runnable) > 1 and rng.random() < 0.75:
                    return rng.choice([r for r in runnable if r != b.last])
                return b.last
            return rng.choice(runnable)
        if kind == "stall":
            # one victim session is parked at its k-th engine call until every other session has finished
            # (the classic way to hold a multi-call statement open while others run to completion)
            st = stall
            if st["victim"] is None:
                st["victim"] = rng.choice(runnable)
                st["at"] = rng.choice([1, 2, 3, 3, 4, 4, 5, 6, 8, 12, max(2, horizon // 6)])
            v = st["victim"]
            if b.last == v and b.parked.get(v, ("",))[0] == "E":
                st["seen"] += 1
            others = [r for r in runnable if r != v]
            if v in runnable and (st["seen"] < st["at"] or not others):
                if b.last in runnable and b.last != v and b.parked[b.last][0] in ("E", "L"):
                    return b.last
                return v if (st["seen"] < st["at"] and rng.random() < 0.7) or not others else rng.choice(others)
            if b.last in others and b.parked[b.last][0] in ("E", "L"):
                return b.last
            return rng.choice(others) if others else v
        if kind == "pct":
            for r in runnable:
                if r not in prio:
                    prio[r] = rng.random() + 1.0
            if change_at and b.decisions >= change_at[0]:
                change_at.pop(0)
                if b.last in prio:
                    prio[b.last] = min(prio.values()) - 1.0
            return max(runnable, key=lambda r: (prio[r], r))
        raise HarnessError(f"unknown strategy {kind}")

    return choose


WINDOW_PAT = re.compile(
    r"information_schema\.schemata|^ATTACH|^CREATE (OR REPLACE )?(TEMPORARY )?TABLE|merge_candidates|_fs_tables_ext|_fs_columns_ext|^CREATE SCHEMA",
    re.IGNORECASE,
)
