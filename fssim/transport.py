"""S2/S3 seams: the connector <-> server HTTP exchange runs in-process (DESIGN.md section 2.1).

`install()` replaces snowflake.connector's vendored HTTPAdapter.send with a function that turns the
PreparedRequest into an ASGI scope and drives fakesnow.server.app to completion on the calling (client)
thread; fakesnow.server.run_in_threadpool becomes an inline awaitable, so the handler's engine calls are S1
events of that simulated client; login tokens come from the run's PRNG.
"""

from __future__ import annotations

import asyncio
import io
from typing import Any
from urllib.parse import urlsplit

from . import core

_installed = False
_state: dict[str, Any] = {"rng": None, "n": 0}


class _VTime:
    """The clock the connector's retry logic reads: a fixed epoch plus the simulated sleeps. A retry back-off therefore
    costs no wall time, and a retry deadline is reached by simulated sleeping, never by machine load."""

    def __init__(self, real: Any) -> None:
        self._r = real
        self.base = 1_700_000_000.0
        self.offset = 0.0
        self.sleeps = 0

    def sleep(self, s: float) -> None:
        self.offset += max(0.0, float(s))
        self.sleeps += 1
        sim = core.SIM
        if sim is not None and not sim.is_quiet():
            sim.probes["connector_retry_sleeps"] += 1

    def time(self) -> float:
        return self.base + self.offset  # no real component: machine load cannot reach a deadline

    def monotonic(self) -> float:
        return self.offset

    def __getattr__(self, name: str) -> Any:
        return getattr(self._r, name)


class _Jitter:
    """Back-off jitter of the connector from the run's PRNG (a process-global `random` would break replay)."""

    def choice(self, seq: Any) -> Any:
        rng = _state["rng"]
        return seq[rng.randrange(len(seq))] if rng is not None else seq[0]

    def randint(self, a: int, b: int) -> int:
        rng = _state["rng"]
        return rng.randint(a, b) if rng is not None else b


_vtime: _VTime | None = None


def asgi_call(method: str, url: str, headers: dict[str, str], body: bytes) -> tuple[int, dict[str, str], bytes]:
    """One HTTP exchange with fakesnow.server.app, no socket. A transport event of the calling session."""
    import fakesnow.server as srv

    u = urlsplit(url)
    sim = core.SIM
    if sim is not None and not sim.is_quiet():
        if sim.sched is not None:
            sim.sched.yield_point(("T", method, u.path))
        sim.seq += 1
        sim.log.append((sim.seq, sim.session(), "T", method, u.path))
        sim.probes["transport_requests"] += 1
    scope = {
        "type": "http", "asgi": {"version": "3.0"}, "http_version": "1.1", "method": method, "scheme": "http",
        "path": u.path, "raw_path": u.path.encode(), "query_string": u.query.encode(),
        "headers": [(k.lower().encode(), str(v).encode()) for k, v in headers.items()],
        "server": ("sim", 80), "client": ("client", 1),
    }
    sent = [False]

    async def receive() -> dict[str, Any]:
        if not sent[0]:
            sent[0] = True
            return {"type": "http.request", "body": body, "more_body": False}
        return {"type": "http.disconnect"}

    out: dict[str, Any] = {"status": None, "headers": [], "body": b""}

    async def send(m: dict[str, Any]) -> None:
        if m["type"] == "http.response.start":
            out["status"] = m["status"]
            out["headers"] = m["headers"]
        elif m["type"] == "http.response.body":
            out["body"] += m.get("body", b"")

    loop = asyncio.new_event_loop()
    try:
        loop.run_until_complete(srv.app(scope, receive, send))
    finally:
        loop.close()
    return out["status"], {k.decode(): v.decode() for k, v in out["headers"]}, out["body"]


def install() -> None:
    global _installed
    if _installed:
        return
    core.install()
    from snowflake.connector.vendored.requests.adapters import HTTPAdapter
    from snowflake.connector.vendored.requests.models import Response
    from snowflake.connector.vendored.requests.structures import CaseInsensitiveDict

    import fakesnow.server as srv

    def sim_send(self: Any, request: Any, **kw: Any) -> Any:
        body = request.body or b""
        if isinstance(body, str):
            body = body.encode()
        status, headers, content = asgi_call(request.method, request.url, dict(request.headers), body)
        r = Response()
        r.status_code = status
        r.headers = CaseInsensitiveDict(headers)
        r.raw = io.BytesIO(content)
        r._content = content
        r.url = request.url
        r.request = request
        r.reason = "OK" if status == 200 else "ERR"
        r.encoding = "utf-8"
        return r

    HTTPAdapter.send = sim_send

    async def inline(fn: Any, *a: Any, **k: Any) -> Any:
        return fn(*a, **k)

    srv.run_in_threadpool = inline

    class _Secrets:
        @staticmethod
        def token_urlsafe(n: int = 32) -> str:
            _state["n"] += 1
            rng = _state["rng"]
            tail = "%012x" % (rng.getrandbits(48) if rng is not None else 0)
            return f"tok{_state['n']:04d}{tail}"

    srv.secrets = _Secrets()
    # the connector's retry loop: simulated sleeps, simulated deadline, seeded jitter
    global _vtime
    import time as _real_time

    import snowflake.connector.backoff_policies as bp
    import snowflake.connector.network as net
    import snowflake.connector.time_util as tu

    _vtime = _VTime(_real_time)
    net.time = _vtime
    tu.time = _vtime
    bp.random = _Jitter()
    _installed = True


def reset(rng: Any) -> None:
    """Fresh server state for a run: new shared instance, no sessions, token stream from the run's PRNG."""
    import fakesnow.server as srv
    from fakesnow.instance import FakeSnow

    try:
        srv.shared_fs.duck_conn.close()
    except BaseException:  # noqa: BLE001, S110
        pass
    srv.shared_fs = FakeSnow()
    srv.sessions.clear()
    _state["rng"] = rng
    _state["n"] = 0
    if _vtime is not None:
        _vtime.offset = 0.0


def client_connect(database: str | None, schema: str | None, db_path: str | None = None) -> Any:
    """A real snowflake.connector connection to the simulated server."""
    import snowflake.connector

    params: dict[str, Any] = {"CLIENT_OUT_OF_BAND_TELEMETRY_ENABLED": False}
    if db_path:
        params["FAKESNOW_DB_PATH"] = db_path
    kw: dict[str, Any] = {}
    if database:
        kw["database"] = database
    if schema:
        kw["schema"] = schema
    return snowflake.connector.connect(
        user="fake", password="snow", account="fakesnow", host="localhost", port=1, protocol="http",
        session_parameters=params, network_timeout=40, login_timeout=40, platform_detection_timeout_seconds=0, **kw,  # deadlines are read from the simulated clock (_VTime): reached by simulated back-off sleeps only
    )
