"""Profile `connect` (C14): connect() does what its options say in every configuration.

connect(cfg) is an operation of the multi-session world; the instance options are per-run swarm knobs; prior
state is produced by earlier operations (other connects, CREATE/DROP by statement) and, with db_path, by an
earlier instance on the same path (restart).  Oracle: DESIGN.md section 7 (C14).
"""

from __future__ import annotations

from typing import Any

from ..model import Model
from ..sqlgen import Gen
from ..sqlworld import Oracle, run_serial_case

NAME = "connect"
PROPERTIES = ["C14"]
CLAUSE_PROPS = {"ctx-function": "C03", "rowcount": "C04", "status-row": "C04"}

DB_ARGS = [None, "db1", "DB1", "Db1", "DB2", "db2"]
SCHEMA_ARGS = [None, "s1", "S1", "s1X".replace("X", ""), "S2", "information_schema", "INFORMATION_SCHEMA"]

SPEC = {
    "runs": {"quick": 600, "thorough": 30000},
    "wall": {"quick": 600, "thorough": 7200},
    "chunk": 10,
    "level": "exploration",
    "technique": "deterministic simulation: seeded connect() configurations x prior states (incl. instance restart on db_path) x connection order, each connect checked against a reference model of the catalog, the session context and a context probe",
    "level_text": (
        "Seeded sampling of the product (database/schema argument presence and letter case incl. INFORMATION_SCHEMA) x the two auto-create "
        "flags x {in-memory, db_path} x {database exists, schema exists} x connection order, the prior state being produced by earlier "
        "statements, earlier connects and an earlier instance on the same db_path. After every connect: it returned; the catalog is the "
        "previous one plus exactly the allowed objects; conn.database/schema are the requested names upper-cased; the session has a usable "
        "context exactly when the objects exist (probed by an unqualified statement); existing rows and all other sessions are untouched. "
        "Evidence reports configuration tuples hit. Sampling, not proof."
    ),
    "level_note": "Trusted: the reference model of connect (DESIGN.md section 3.3). With db_path the combination 'file exists, auto-create off' is not generated (the property does not say whether an un-attached file is an existing database).",
    "rule": (
        "one evaluation = one seeded history (set-up statements, 2-6 connects, probes); non-trivial = at least two connects executed; "
        "distinct = hash of the sequence of (op kind, predicted-failure flag); cover items = distinct tuples (db arg kind, schema arg kind, "
        "create_db, create_schema, storage, db existed, schema existed)"
    ),
    "cover_total": 352,  # feasible tuples: 2 storages x 4 flag pairs x (5 + 3 x (5 + 8))
    "bounds": "1-3 sessions, 2-6 connects per run, 2 databases x 2 schemas",
    "components_real": ["fakesnow/*", "sqlglot", "duckdb engine (in-memory and on files in a per-run scratch dir)"],
    "components_stubbed": ["caller threads", "process boundary for 'restart' (instance closed and re-created in the same process; real processes are C18's subject)"],
    "assumptions": ["statement-level atomicity"],
    "mandatory_probes": {"any": ["op_connect", "op_restart", "predicted_90105", "predicted_90106"]},
}


def _kind(x: str | None) -> str:
    if x is None:
        return "absent"
    if x.upper() == "INFORMATION_SCHEMA":
        return "infoschema"
    return "lower" if x.islower() else "upper" if x.isupper() else "mixed"


def gen(rng: Any, prop: str, tier: str) -> dict[str, Any]:
    create_db = rng.random() < 0.6
    create_schema = rng.random() < 0.6
    storage = "db_path" if rng.random() < 0.3 else "memory"
    fs_opts: dict[str, Any] = {"create_database_on_connect": create_db, "create_schema_on_connect": create_schema}
    if storage == "db_path":
        fs_opts["db_path"] = "<scratch>"
    g = Gen(rng, Model(create_db, create_schema), vary_spelling=False)
    # prior state by statements of a context-free root session
    g.connect("root", None, None)
    for d in ("DB1", "DB2"):
        if rng.random() < 0.5:
            g.exec("root", {"t": "create_db", "name": d})
            for s in ("S1", "S2"):
                if rng.random() < 0.5:
                    g.exec("root", {"t": "create_schema", "db": d, "name": s})
                    if rng.random() < 0.6:
                        g.exec("root", {"t": "create_table", "ref": [d, s, "T1"], "cols": [["A", "INT"], ["B", "VARCHAR(20)"]], "comment": f"made by root in {d}.{s}"})
                        g.exec("root", {"t": "insert", "ref": [d, s, "T1"], "rows": [[g.fresh(), "root"]]})
                    if rng.random() < 0.3:
                        # existing data under a quoted, lower-case name (stored verbatim): connecting must not touch it either
                        g.exec("root", {"t": "create_table", "ref": [d, s, '"raw_t"'], "cols": [["A", "INT"], ["B", "VARCHAR(12)"]], "comment": "quoted name"})
    # names with an underscore next to look-alikes that differ only there (DB_1 / DBX1): an existence test by pattern would confuse them
    lookalike = rng.random() < 0.15
    if lookalike:
        g.exec("root", {"t": "create_db", "name": "DBX1"})
        g.exec("root", {"t": "create_schema", "db": "DBX1", "name": "SX1"})
    sids = ["s0", "s1", "s2"]
    n_conn = rng.randint(2, 6)
    restarted = False
    for i in range(n_conn):
        sid = rng.choice(sids)
        if storage == "db_path" and create_db and not restarted and i > 0 and rng.random() < 0.35:
            g.ops.append({"s": "root", "k": "restart"})
            g.m.restart()
            restarted = True
        d = rng.choice(["DB_1", "db_1", "DBX1", None] if lookalike else DB_ARGS)
        s = rng.choice(["S_1", "s_1", "SX1", None] if lookalike else SCHEMA_ARGS)
        ctx0 = g.m.session_ctx(sid) if sid in g.m.sessions and not g.m.sessions[sid].get("closed") else (None, None)
        if (rng.random() < 0.25 and ctx0[0] and ctx0[1] and ctx0[1] != "INFORMATION_SCHEMA" and g.m.sessions.get("root") and not g.m.detached
                and not g.m.dbs[ctx0[0]][ctx0[1]]["tables"] and not g.m.dbs[ctx0[0]][ctx0[1]]["views"]
                and not any(g.m.session_ctx(x) == ctx0 for x in g.m.sessions if x != sid and not g.m.sessions[x].get("closed"))):
            # the session leaves, its (empty) schema is dropped, and the very same names are connected to again
            g.ops.append({"s": sid, "k": "close"})
            g.m.close(sid)
            g.exec("root", {"t": "drop_schema", "db": ctx0[0], "name": ctx0[1]})
            d, s = rng.choice([ctx0[0], ctx0[0].lower()]), rng.choice([ctx0[1], ctx0[1].lower()])
        extra = {}
        if rng.random() < 0.2:
            # connector arguments fakesnow accepts and ignores: they must not change what connect() does to the catalog
            extra["session_parameters"] = rng.choice([{"AUTOCOMMIT": False}, {"autocommit": False}, {"QUERY_TAG": "t"}, {"AUTOCOMMIT": True, "TIMEZONE": "UTC"}])
        g.ops.append({"s": sid, "k": "connect", "database": d, "schema": s, "cfg": True, **extra})
        g.m.connect(sid, d, s)
        # probe the context with an unqualified statement, then use the session a little
        g.exec(sid, {"t": "select", "ref": [None, None, "NOPE_PROBE"]})
        r = rng.random()
        cd, cs = g.m.session_ctx(sid)
        if r < 0.3 and cd and cs and cs != "INFORMATION_SCHEMA":
            name = rng.choice(["T1", "T2"])
            if name not in g.m.dbs[cd][cs]["tables"]:
                g.exec(sid, {"t": "create_table", "ref": [None, None, name], "cols": [["A", "INT"], ["B", "VARCHAR(20)"]]})
            g.exec(sid, {"t": "insert", "ref": [None, None, name], "rows": [[g.fresh(), sid]]})
        elif r < 0.45:
            g.exec(sid, {"t": "ctxq"})
        elif r < 0.55 and g.m.sessions.get("root") and "DB1" not in g.m.dbs and not g.m.detached:
            g.exec("root", {"t": "create_db", "name": "DB1"})
        elif r < 0.65:
            tables = [t for t in g.all_tables() if t[2] == t[2].upper()]  # unquoted references only reach upper-case names (identifier case is C02's subject, not claimed)
            if tables:
                g.exec(sid, {"t": "select", "ref": list(rng.choice(tables))})
        elif r < 0.8 and g.m.sessions.get("root") and not g.m.detached:
            # a schema disappears again (one that no live session is in, and empty): a later connect() naming it starts from scratch
            used = {g.m.session_ctx(x) for x in g.m.sessions}
            cand = [(d2, s2) for d2, s2 in g.all_schemas() if (d2, s2) not in used and not g.m.dbs[d2][s2]["tables"] and not g.m.dbs[d2][s2]["views"] and s2 != "INFORMATION_SCHEMA"]
            if cand:
                d2, s2 = rng.choice(cand)
                g.exec("root", {"t": "drop_schema", "db": d2, "name": s2})
    return {"profile": NAME, "config": {"create_db": create_db, "create_schema": create_schema, "storage": storage, "fs_opts": fs_opts}, "strategy": "serial", "ops": g.ops}


class ConnectOracle(Oracle):
    def __init__(self, cfg: dict[str, Any]) -> None:
        super().__init__("C14", CLAUSE_PROPS)
        self.cfg = cfg
        self.cover: list[str] = []

    def check_outcome(self, op: dict[str, Any], pred: dict[str, Any], out: dict[str, Any]) -> None:
        if op["k"] == "connect" and op.get("cfg"):
            if not out.get("ok"):
                self.flag("connect-raises", f"connect-raises/{out.get('exc')}/create_db={self.cfg['create_db']}/create_schema={self.cfg['create_schema']}",
                          {"op": {k: op.get(k) for k in ("s", "k", "database", "schema")}, "config": self.cfg, "outcome": out})
                return
        super().check_outcome(op, pred, out)


def run(case: dict[str, Any]) -> dict[str, Any]:
    cfg = case["config"]
    oracle = ConnectOracle(cfg)
    # cover tuples need the state before each connect: recompute with a private model
    m = Model(cfg["create_db"], cfg["create_schema"])
    for op in case["ops"]:
        if op["k"] == "connect":
            if op.get("cfg"):
                d, s = op.get("database"), op.get("schema")
                dbe = bool(d) and d.upper() in m.dbs
                sce = dbe and bool(s) and m.has_schema(d.upper(), s.upper())
                oracle.cover.append(f"{_kind(d)}|{_kind(s)}|{cfg['create_db']}|{cfg['create_schema']}|{cfg['storage']}|{dbe}|{sce}")
            m.connect(op["s"], op.get("database"), op.get("schema"))
        elif op["k"] == "restart":
            m.restart()
        elif op["k"] == "exec" and op["s"] in m.sessions:
            m.apply(op["s"], op["st"])
    # connecting never disturbs existing data - including the comments and VARCHAR lengths kept in fakesnow's side tables
    return run_serial_case(case, oracle, focus=lambda op, pred: op["k"] == "connect", min_focus=2, ext_stable=lambda op: op["k"] == "connect" and bool(op.get("cfg")))
