"""Profile `txn` (C13): transactions are atomic, isolated between connections, and sticky to theirs.

2-3 sessions x 1-2 cursors; every statement-level interleaving is a schedule (`serial`), a share of the runs
is scheduled at engine-call granularity (random / pct).  Writes are non-conflicting (each session writes its
own tables); every inserted row carries a run-unique id, so each row read anywhere is attributable to one
statement of one transaction.  The oracle works on the recorded history with the visibility rules of
DESIGN.md appendix B - no isolation model is needed.
"""

from __future__ import annotations

import random
from typing import Any

from .. import core
from ..runner import fp
from ..threaded import run_serial, run_threaded
from ..sqlworld import world_ext
from ..world import World

NAME = "txn"
PROPERTIES = ["C13"]
DB, SC = "DB1", "S1"
STATUS_OK = [["Statement executed successfully."]]

SPEC = {
    "runs": {"quick": 700, "thorough": 60000},
    "wall": {"quick": 600, "thorough": 7200},
    "chunk": 10,
    "level": "exploration",
    "technique": "deterministic simulation: seeded interleavings (statement level and engine-call level) of transactional histories on 2-3 connections; visibility rules (no dirty read, read-your-writes, atomic visibility, rollback leaves no trace) checked over the recorded history",
    "level_text": (
        "Seeded search over interleavings of BEGIN / DML / queries / COMMIT / ROLLBACK (as SQL and via conn.commit()/rollback(), also with "
        "no transaction open) and failing statements inside transactions, on 2-3 connections with 1-2 cursors each and non-conflicting "
        "writes; 65 % of runs at statement granularity, 35 % pre-empted at individual engine calls. Unique row values make every row "
        "attributable to one transaction; the recorded history is checked for dirty reads, read-your-writes through every cursor, atomic "
        "visibility of commits, visibility from the first read after COMMIT (for readers outside a transaction), rollbacks leaving no trace, "
        "status rows of no-op COMMIT/ROLLBACK, and the final committed state. Sampling, not proof."
    ),
    "level_note": "Trusted: the visibility rules of DESIGN.md appendix B (a reader inside its own older transaction may see either snapshot); event sequence numbers as the real-time order; DuckDB atomic per call.",
    "rule": (
        "one evaluation = one seeded run (2-3 sessions, 10-36 ops); non-trivial = at least one read by another session fell between a "
        "transaction's first write and its COMMIT/ROLLBACK, or after its COMMIT; distinct = hash of (op kinds per session, schedule of sessions)"
    ),
    "bounds": "2-3 sessions (thorough: up to 4) x 1-2 cursors, 10-36 ops, 1-2 tables per session, one database (DuckDB refuses multi-database write transactions)",
    "components_real": ["fakesnow/*", "sqlglot", "duckdb engine (in-memory)"],
    "components_stubbed": ["thread scheduling (serial: one thread in list order; otherwise baton over real threads)"],
    "assumptions": ["writes of different sessions never touch the same table (the property says non-conflicting writes)"],
    "mandatory_probes": {"any": ["foreign_read_during_open_txn", "foreign_read_after_commit", "rollback", "commit_without_txn", "own_read_in_txn", "fail_in_txn", "preempt_inside_op", "table_created_in_txn", "runtime_failure_in_txn", "close_with_open_txn", "rolled_back_create"]},
}


def gen(rng: Any, prop: str, tier: str) -> dict[str, Any]:
    k = rng.choice([2, 2, 3] + ([3, 4] if tier == "thorough" else []))  # deeper bound in the thorough tier
    sids = [f"s{i}" for i in range(k)]
    tables = {sid: [f"T_{sid.upper()}"] + ([f"U_{sid.upper()}"] if rng.random() < 0.4 else []) for sid in sids}
    setup = [f"CREATE TABLE {DB}.{SC}.{t} (id INT, who VARCHAR(10))" for sid in sids for t in tables[sid]]
    setup += [f"CREATE TABLE {DB}.{SC}.R_{sid.upper()} (id INT, who VARCHAR(10)) COMMENT = 'r0'" for sid in sids]
    uid = [100]

    def fresh() -> int:
        uid[0] += 1
        return uid[0]

    ops: list[dict[str, Any]] = []
    open_txn = {sid: False for sid in sids}
    mine_in_txn: dict[str, list[tuple[str, int]]] = {sid: [] for sid in sids}
    all_tables = [t for sid in sids for t in tables[sid]]
    new_tables: list[str] = []
    merges = rng.random() < 0.5  # MERGE (fakesnow's longest multi-call statement) as one of the writers
    for sid in sids:
        ops.append({"s": sid, "k": "connect", "database": DB, "schema": SC})
    for _ in range(rng.randint(10, 36)):
        sid = rng.choice(sids)
        cur = rng.choice([0, 0, 1])
        kind = rng.choices(["begin", "end", "insert", "read", "read2", "delete_own", "fail", "end_noop", "create_in_txn", "fail_runtime", "close_reopen"], [5, 7, 12, 12, 2, 2, 2, 1, 2, 1, 1])[0]
        if kind == "close_reopen":
            # the connection goes away (with whatever transaction it has open: never committed, so never visible) and a new one takes its place
            ops.append({"s": sid, "k": "close", "txn": "close"})
            ops.append({"s": sid, "k": "connect", "database": DB, "schema": SC})
            open_txn[sid] = False
            mine_in_txn[sid] = []
            continue
        if kind == "fail_runtime":
            if open_txn[sid]:
                # a statement failing at run time (not because of what it refers to): the engine aborts its transaction.
                # What must still hold: no dirty read, no trace after ROLLBACK, all-or-nothing at COMMIT.
                ops.append({"s": sid, "k": "exec", "cur": cur, "sql": rng.choice(["SELECT 'abc'::INT", "SELECT CAST('x' AS INT)"]), "fail_runtime": True})
                continue
            kind = "read"
        if kind == "create_in_txn":
            if not open_txn[sid]:
                kind = "insert"
            else:
                # table DDL inside a transaction: the table and its rows appear to others together at COMMIT
                t = f"N_{sid.upper()}_{fresh()}"
                ids = [fresh()]
                ops.append({"s": sid, "k": "exec", "cur": cur, "sql": f"CREATE TABLE {t} (id INT, who VARCHAR(10))", "ddl": {"table": t}})
                ops.append({"s": sid, "k": "exec", "cur": cur, "sql": f"INSERT INTO {t} VALUES ({ids[0]}, '{sid}')", "w": {"table": t, "ids": ids}})
                mine_in_txn[sid].append((t, ids[0]))
                new_tables.append(t)
                continue
        if kind == "begin":
            if open_txn[sid]:
                kind = "insert"
            else:
                ops.append({"s": sid, "k": "exec", "cur": cur, "sql": rng.choice(["BEGIN", "begin", "BEGIN TRANSACTION"]), "txn": "begin"})
                open_txn[sid] = True
                mine_in_txn[sid] = []
                continue
        if kind in ("end", "end_noop"):
            if kind == "end" and not open_txn[sid] and rng.random() < 0.7:
                kind = "insert"  # (otherwise: a COMMIT / ROLLBACK with nothing to end, possibly while another session's transaction is open)
            else:
                what = rng.choice(["commit", "commit", "rollback"])
                if rng.random() < 0.35:
                    ops.append({"s": sid, "k": what, "txn": what})
                else:
                    ops.append({"s": sid, "k": "exec", "cur": cur, "sql": what.upper(), "txn": what})
                open_txn[sid] = False
                continue
        if kind == "insert" and merges and rng.random() < 0.2:
            # the same effect through MERGE (fakesnow's longest multi-call statement), on the session's own table
            t = rng.choice(tables[sid])
            ids = [fresh()]
            ops.append({"s": sid, "k": "exec", "cur": cur, "merge": True, "w": {"table": t, "ids": ids},
                        "sql": f"MERGE INTO {t} USING (SELECT {ids[0]} AS id, '{sid}' AS who) src ON {t}.id = src.id WHEN NOT MATCHED THEN INSERT (id, who) VALUES (src.id, src.who)"})
            if open_txn[sid]:
                mine_in_txn[sid].append((t, ids[0]))
            continue
        if kind == "insert" and open_txn[sid] and rng.random() < 0.12:
            # DROP + CREATE of the same table inside the transaction: whatever ends the transaction, the table's
            # Snowflake-side metadata (VARCHAR length, comment) must be there afterwards - from the new or the old declaration
            r = f"R_{sid.upper()}"
            ops.append({"s": sid, "k": "exec", "cur": cur, "sql": f"DROP TABLE {r}", "recreate": r})
            ops.append({"s": sid, "k": "exec", "cur": cur, "sql": f"CREATE TABLE {r} (id INT, who VARCHAR(10)) COMMENT = 'r{fresh()}'", "recreate": r})
            continue
        if kind == "insert" and rng.random() < 0.12:
            # the same rows through write_pandas
            t = rng.choice(tables[sid])
            ids = [fresh() for _ in range(rng.choice([1, 2, 3]))]
            ops.append({"s": sid, "k": "write_pandas", "merge": True, "table": t, "database": DB, "schema": SC, "cols": ["ID", "WHO"], "rows": [[i, sid] for i in ids], "w": {"table": t, "ids": ids}})
            if open_txn[sid]:
                mine_in_txn[sid].extend((t, i) for i in ids)
            continue
        if kind == "insert" and rng.random() < 0.15:
            # the same rows through executemany (one engine statement per parameter row)
            t = rng.choice(tables[sid])
            ids = [fresh() for _ in range(rng.choice([1, 2, 3]))]
            ops.append({"s": sid, "k": "executemany", "cur": cur, "merge": True, "sql": f"INSERT INTO {t} VALUES (%s, %s)", "seqparams": [[i, sid] for i in ids], "w": {"table": t, "ids": ids}})
            if open_txn[sid]:
                mine_in_txn[sid].extend((t, i) for i in ids)
            continue
        if kind == "insert":
            t = rng.choice(tables[sid])
            ids = [fresh() for _ in range(rng.choice([1, 1, 2, 3]))]
            vals = ", ".join(f"({i}, '{sid}')" for i in ids)
            ops.append({"s": sid, "k": "exec", "cur": cur, "sql": f"INSERT INTO {t} VALUES {vals}", "w": {"table": t, "ids": ids}})
            if open_txn[sid]:
                mine_in_txn[sid].extend((t, i) for i in ids)
        elif kind == "delete_own":
            if open_txn[sid] and mine_in_txn[sid]:
                t, i = rng.choice(mine_in_txn[sid])
                mine_in_txn[sid].remove((t, i))
                ops.append({"s": sid, "k": "exec", "cur": cur, "sql": f"DELETE FROM {t} WHERE id = {i}", "d": {"table": t, "ids": [i]}})
        elif kind == "read" and new_tables and rng.random() < 0.25:
            # a reader who mistypes the name of a table another transaction may just be creating: the error must not name that table
            t = rng.choice(new_tables[-2:])
            ops.append({"s": sid, "k": "exec", "cur": cur, "sql": f"SELECT id FROM {DB}.{SC}.{t[:-1]}Z", "typo_of": t})
        elif kind == "read":
            t = rng.choice(all_tables + new_tables[-2:])
            ops.append({"s": sid, "k": "exec", "cur": cur, "sql": f"SELECT id FROM {DB}.{SC}.{t}", "r": [t]})
        elif kind == "read2":
            ts = rng.sample(all_tables, 2) if len(all_tables) >= 2 else all_tables
            sql = " UNION ALL ".join(f"SELECT id FROM {t}" for t in ts)
            ops.append({"s": sid, "k": "exec", "cur": cur, "sql": sql, "r": ts})
        elif kind == "fail":
            ops.append({"s": sid, "k": "exec", "cur": cur, "sql": rng.choice(["SELECT * FROM NO_SUCH_TABLE", "INSERT INTO NO_SUCH_TABLE VALUES (1)", f"SELECT nope FROM {tables[sid][0]}"]), "fail": True})
    engine_level = rng.random() < 0.35
    return {
        "profile": NAME,
        "config": {"k": k, "tables": tables, "setup": setup, "hazards": {"merge_in_txn": merges}},
        "strategy": rng.choice(["random", "pct", "pct"]) if engine_level else "serial-list",
        "pct_depth": rng.choice([1, 2, 3]),
        "pct_horizon": 8 * len(ops),
        "sched_seed": rng.getrandbits(48),
        "ops": ops,
    }


# --------------------------------------------------------------------------- oracle over the history


def v_(signature: str, clause: str, detail: Any) -> dict[str, Any]:
    return {"property": "C13", "signature": signature, "clause": clause, "detail": detail}


def brief(h: dict[str, Any]) -> dict[str, Any]:
    return {"s": h["s"], "k": h["op"]["k"], "cur": h["op"].get("cur"), "sql": h["op"].get("sql"), "inv": h["inv"], "ret": h["ret"],
            "out": {k: v for k, v in h["out"].items() if k in ("ok", "rows", "exc", "errno", "msg")}}


def check_history(history: list[dict[str, Any]], probes: dict[str, int]) -> dict[str, Any] | None:
    """Returns the first violation of the visibility rules, or None."""
    INF = 10 ** 12
    per: dict[str, list[dict[str, Any]]] = {}
    for h in sorted(history, key=lambda x: x["inv"]):
        per.setdefault(h["s"], []).append(h)
    # --- reconstruct transactions per session from program order and outcomes
    txns: list[dict[str, Any]] = []
    row_txn: dict[int, dict[str, Any]] = {}
    table_txn: dict[str, dict[str, Any]] = {}
    doomed_tables: set[str] = history[0].setdefault("_doomed_tables", set()) if history else set()
    for sid, hs in per.items():
        cur: dict[str, Any] | None = None
        for h in hs:
            op, out = h["op"], h["out"]
            if op["k"] == "connect":
                if not out.get("ok"):
                    return v_("raises/connect", "connect failed", brief(h))
                continue
            t = op.get("txn")
            if t == "close":
                if not out.get("ok"):
                    return v_(f"raises/close/{out.get('exc')}", "close() failed", brief(h))
                if cur is not None:
                    # closing ends the transaction without COMMIT: from here on it counts as rolled back
                    probes["close_with_open_txn"] = probes.get("close_with_open_txn", 0) + 1
                    cur["end"] = h
                    cur["state"] = "rolledback"
                    cur = None
                continue
            if op.get("fail_runtime"):
                probes["runtime_failure_in_txn"] = probes.get("runtime_failure_in_txn", 0) + 1
                if out.get("ok"):
                    return v_("fail-outcome/runtime-ok", "a statement that cannot be evaluated must raise", brief(h))
                if cur is not None:
                    cur["doomed"] = True
                continue
            if cur is not None and cur.get("doomed") and not out.get("ok") and t not in ("commit", "rollback"):
                continue  # the engine refuses statements of an aborted transaction until it is ended: tolerated, nothing recorded
            if op.get("typo_of"):
                if out.get("ok") or out.get("exc") != "ProgrammingError":
                    return v_(f"fail-outcome/{out.get('exc')}", "a read of a table that does not exist must raise ProgrammingError", brief(h))
                h["_typo"] = True
                if cur is not None:
                    cur.setdefault("typo_reads", 0)
                continue
            if op.get("fail"):
                probes["fail_in_txn"] = probes.get("fail_in_txn", 0) + (1 if cur is not None else 0)
                if out.get("ok") or out.get("exc") != "ProgrammingError":
                    return v_(f"fail-outcome/{out.get('exc')}", "a failing statement inside the history must raise ProgrammingError", brief(h))
                continue
            if not out.get("ok") and cur is not None and cur.get("doomed") and t in ("commit", "rollback"):
                cur["end"] = h
                cur["state"] = "rolledback"
                cur = None
                continue
            if not out.get("ok"):
                if "r" in op and any(x.startswith("N_") for x in op["r"]) and out.get("exc") == "ProgrammingError":
                    h["_missing_table"] = True  # judged below: the table may legitimately not exist (yet / any more) for this reader
                    h["_txn_open"] = cur
                    continue
                return v_(f"raises/{t or ('insert' if 'w' in op else 'delete' if 'd' in op else 'ddl' if 'ddl' in op else 'read')}/{out.get('exc')}", "statement failed although writes are non-conflicting", brief(h))
            if t == "begin":
                cur = {"s": sid, "begin": h, "rows": {}, "deleted": set(), "end": None, "state": "open", "auto": False}
                txns.append(cur)
            elif t in ("commit", "rollback"):
                if cur is None:
                    probes["commit_without_txn"] = probes.get("commit_without_txn", 0) + 1
                    if op["k"] == "exec" and out.get("rows") != STATUS_OK:
                        return v_(f"noop-{t}-status", f"{t.upper()} with no open transaction must return the standard status row", brief(h))
                else:
                    cur["end"] = h
                    cur["state"] = "committed" if t == "commit" else "rolledback"
                    if cur.get("doomed") and t == "commit":
                        doomed_tables.update(r["table"] for r in cur["rows"].values())
                    if t == "rollback":
                        probes["rollback"] = probes.get("rollback", 0) + 1
                    cur = None
            elif "w" in op:
                if not op.get("merge") and out.get("rows") != [[len(op["w"]["ids"])]]:
                    return v_("insert-count", "INSERT status row", brief(h))
                tx = cur
                for n, i in enumerate(op["w"]["ids"]):
                    if cur is None and (tx is None or (n > 0 and op["k"] == "executemany")):
                        # autocommit: one transaction per statement - executemany is one statement per parameter row
                        tx = {"s": sid, "begin": h, "rows": {}, "deleted": set(), "end": h, "state": "committed", "auto": True}
                        txns.append(tx)
                    tx["rows"][i] = {"table": op["w"]["table"], "h": h}
                    row_txn[i] = tx
            elif "recreate" in op:
                probes["recreate_in_txn"] = probes.get("recreate_in_txn", 0) + 1
            elif "ddl" in op:
                tx = cur
                if tx is None:
                    tx = {"s": sid, "begin": h, "rows": {}, "deleted": set(), "end": h, "state": "committed", "auto": True}
                    txns.append(tx)
                tx.setdefault("tables", {})[op["ddl"]["table"]] = h
                table_txn[op["ddl"]["table"]] = tx
            elif "d" in op:
                tx = cur
                for i in op["d"]["ids"]:
                    if tx is not None and i in tx["rows"]:
                        tx["deleted"].add(i)
                        tx["rows"][i]["del"] = h
            elif "r" in op:
                h["_txn_open"] = cur
    # --- every read against every transaction
    for sid, hs in per.items():
        for h in hs:
            op = h["op"]
            if h.get("_typo"):
                tx = table_txn.get(op["typo_of"])
                if tx is not None and tx["s"] != sid and (tx["state"] != "committed" or h["ret"] < tx["end"]["inv"]) and not tx.get("doomed"):
                    probes["typo_read_during_foreign_create"] = probes.get("typo_read_during_foreign_create", 0) + 1
                    if op["typo_of"] in str(h["out"].get("msg")):
                        return v_("uncommitted-table-named-in-error", "an error message names a table that only exists inside a foreign, uncommitted transaction", {"read": brief(h), "table": op["typo_of"], "txn_of": tx["s"]})
                continue
            if "r" in op and h.get("_missing_table"):
                # "table does not exist" is right exactly when the creating transaction is not (yet) visible to this reader
                for tname in op["r"]:
                    tx = table_txn.get(tname)
                    if tx is None or tx.get("doomed"):
                        continue  # a transaction the engine aborted after a run-time failure may have been discarded as a whole
                    end_ret = tx["end"]["ret"] if tx["end"] is not None else INF
                    own_visible = tx["s"] == sid and tx["tables"][tname]["ret"] < h["inv"] and not (tx["state"] == "rolledback" and tx["end"]["ret"] < h["inv"])
                    reader_txn = h.get("_txn_open")
                    older_own = reader_txn is not None and reader_txn["begin"]["inv"] < end_ret
                    if own_visible or (tx["s"] != sid and tx["state"] == "committed" and end_ret < h["inv"] and not older_own):
                        return v_("created-table-not-visible" + ("/own" if tx["s"] == sid else ""), "a table created by a committed (or the reader's own) transaction must be visible", {"read": brief(h), "table": tname, "txn_of": tx["s"]})
                continue
            if "r" not in op or not h["out"].get("ok"):
                continue
            for tname in op["r"]:
                tx = table_txn.get(tname)
                if tx is not None and tx["s"] != sid and (tx["state"] != "committed" or h["ret"] < tx["end"]["inv"]):
                    return v_("uncommitted-table-visible", "a table created inside a foreign transaction is visible before COMMIT / after ROLLBACK", {"read": brief(h), "table": tname, "txn_of": tx["s"]})
            got = [r[0] for r in (h["out"].get("rows") or [])]
            if len(got) != len(set(got)):
                return v_("read/duplicate-row", "a row was returned twice", brief(h))
            X = set(got)
            tabs = set(op["r"])
            for i in X:
                if i not in row_txn or row_txn[i]["rows"][i]["table"] not in tabs:
                    return v_("read/unknown-row", "a row that no statement inserted into the tables read", {"read": brief(h), "row": i})
            reader_txn = h.get("_txn_open")
            for tx in txns:
                rel = {i for i, r in tx["rows"].items() if r["table"] in tabs}
                if not rel:
                    continue
                final = {i for i in rel if i not in tx["deleted"]}
                seen = X & rel
                end_inv = tx["end"]["inv"] if tx["end"] is not None else INF
                end_ret = tx["end"]["ret"] if tx["end"] is not None else INF
                if tx["s"] == sid:
                    # own writes: program order decides
                    if tx["state"] == "rolledback" and tx["end"]["ret"] < h["inv"]:
                        if seen:
                            return v_("rollback-leaves-trace/own", "rows of a rolled-back transaction were read afterwards", {"read": brief(h), "rows": sorted(seen)})
                        continue
                    must = {i for i in rel if tx["rows"][i]["h"]["ret"] < h["inv"] and not ("del" in tx["rows"][i] and tx["rows"][i]["del"]["ret"] < h["inv"])}
                    mustnot = {i for i in rel if tx["rows"][i]["h"]["inv"] > h["ret"] or ("del" in tx["rows"][i] and tx["rows"][i]["del"]["ret"] < h["inv"])}
                    if (tx["state"] != "rolledback" or h["ret"] < end_inv) and not tx.get("doomed"):
                        if not must <= X:
                            probes["own_read_in_txn"] = probes.get("own_read_in_txn", 0) + 1
                            return v_(f"read-your-writes/cur{op.get('cur', 0)}", "the issuing connection does not see its own writes", {"read": brief(h), "missing": sorted(must - X)})
                    if X & mustnot:
                        return v_("own-future-or-deleted-row", "a row not yet inserted or already deleted by the same connection was read", {"read": brief(h), "rows": sorted(X & mustnot)})
                    if tx["state"] == "open" or h["ret"] < end_inv:
                        probes["own_read_in_txn"] = probes.get("own_read_in_txn", 0) + (0 if tx["auto"] else 1)
                    continue
                # foreign transaction
                if tx["deleted"] & X:
                    return v_("dirty-read/deleted-in-txn", "a row inserted and deleted inside a foreign transaction was read", {"read": brief(h), "rows": sorted(tx["deleted"] & X)})
                if tx["state"] in ("open", "rolledback"):
                    if not tx["auto"] and tx["begin"]["ret"] < h["inv"] and h["ret"] < end_inv:
                        probes["foreign_read_during_open_txn"] = probes.get("foreign_read_during_open_txn", 0) + 1
                    if seen:
                        kind = "dirty-read" if (tx["state"] == "open" or h["ret"] < end_inv) else "rollback-leaves-trace"
                        return v_(f"{kind}/foreign", "rows of an uncommitted or rolled-back foreign transaction were read", {"read": brief(h), "rows": sorted(seen), "txn_of": tx["s"]})
                    continue
                # committed foreign transaction
                if h["ret"] < end_inv:
                    if not tx["auto"]:
                        probes["foreign_read_during_open_txn"] = probes.get("foreign_read_during_open_txn", 0) + 1
                    if seen:
                        return v_("dirty-read/foreign", "rows of a foreign transaction were read before its COMMIT was issued", {"read": brief(h), "rows": sorted(seen), "txn_of": tx["s"]})
                    continue
                if seen not in (set(), final):
                    return v_("atomic-visibility", "a read returned part of a committed transaction's rows", {"read": brief(h), "seen": sorted(seen), "all": sorted(final), "txn_of": tx["s"]})
                if end_ret < h["inv"]:
                    probes["foreign_read_after_commit"] = probes.get("foreign_read_after_commit", 0) + 1
                    older_own = reader_txn is not None and reader_txn["begin"]["inv"] < end_ret
                    if not older_own and final and not seen and not tx.get("doomed"):
                        return v_("commit-not-visible" + ("/autocommit" if tx["auto"] else ""), "a committed transaction is not visible to a later read outside any older transaction",
                                  {"read": brief(h), "missing": sorted(final), "txn_of": tx["s"]})
    return None


def expected_final(history: list[dict[str, Any]]) -> dict[str, list[int]]:
    """Committed rows per table at the end (open transactions count as never committed)."""
    out: dict[str, set[int]] = {}
    per: dict[str, list[dict[str, Any]]] = {}
    for h in sorted(history, key=lambda x: x["inv"]):
        per.setdefault(h["s"], []).append(h)
    for hs in per.values():
        pending: list[tuple[str, int]] | None = None
        for h in hs:
            op = h["op"]
            if not h["out"].get("ok"):
                continue
            if op.get("txn") == "begin":
                pending = []
            elif op.get("txn") == "commit":
                for t, i in pending or []:
                    out.setdefault(t, set()).add(i)
                pending = None
            elif op.get("txn") in ("rollback", "close"):
                pending = None
            elif "w" in op:
                for i in op["w"]["ids"]:
                    if pending is None:
                        out.setdefault(op["w"]["table"], set()).add(i)
                    else:
                        pending.append((op["w"]["table"], i))
            elif "d" in op:
                for i in op["d"]["ids"]:
                    if pending is not None and (op["d"]["table"], i) in pending:
                        pending.remove((op["d"]["table"], i))
    return {t: sorted(v) for t, v in out.items()}


def rolled_back_tables(history: list[dict[str, Any]]) -> set[str]:
    """Names of tables created inside transactions that were then rolled back by an acknowledged ROLLBACK."""
    gone: set[str] = set()
    per: dict[str, list[dict[str, Any]]] = {}
    for h in sorted(history, key=lambda x: x["inv"]):
        per.setdefault(h["s"], []).append(h)
    for hs in per.values():
        pending: list[str] | None = None
        failed = False
        for h in hs:
            op, ok = h["op"], bool(h["out"].get("ok"))
            if op.get("txn") == "begin" and ok:
                pending, failed = [], False
            elif op.get("txn") == "commit":
                pending = None
            elif op.get("txn") in ("rollback", "close"):
                if ok and pending and not failed:
                    gone.update(pending)
                pending = None
            elif pending is not None:
                if "ddl" in op and ok:
                    pending.append(op["ddl"]["table"])
                if op.get("fail_runtime"):
                    failed = True  # the engine aborted the transaction: what it discards and when is not constrained here
    return gone


def run(case: dict[str, Any]) -> dict[str, Any]:
    sim = core.begin()
    world = World(sim)
    probes: dict[str, int] = {}
    try:
        with sim.quiet():
            root = world.fs.connect(database=DB, schema=SC).cursor()
            for sql in case["config"]["setup"]:
                root.execute(sql)
        if case["strategy"] == "serial-list":
            history = run_serial(sim, world, case["ops"])
            res: dict[str, Any] = {"schedule": None, "preemptions": 0}
        else:
            res = run_threaded(sim, world, case, case["ops"])
            history = res["history"]
            if res["deadlock"]:
                return {"violations": [v_("hang/deadlock", "sessions blocked for ever", {"blocked": res["blocked"]})]}
        probes["preempt_inside_op"] = res["preemptions"]
        violation = check_history(history, probes)
        if violation is None:
            snap = world.observe(with_sessions=False)
            got = {t.split(".")[-1]: sorted(r[0] for r in rows) for t, rows in snap["rows"].items()}
            exp = expected_final(history)
            doomed = history[0].get("_doomed_tables", set()) if history else set()
            for t in sorted(set(got) | set(exp)):
                if t in doomed:
                    continue  # a COMMIT after a run-time failure: the engine may have discarded the transaction (all or nothing is checked on the reads)
                if got.get(t, []) != exp.get(t, []):
                    violation = v_("final-state", "the committed state at the end differs from the committed transactions' rows",
                                   {"table": t, "expected": exp.get(t, []), "observed": got.get(t, [])})
                    break
            probes["table_created_in_txn"] = sum(1 for o in case["ops"] if "ddl" in o)
            if violation is None and any("recreate" in o for o in case["ops"]):
                ext = world_ext(world)
                have_len = {str(r[2]) for k2, rows in ext.items() if k2.endswith("_fs_columns_ext") for r in rows if len(r) > 4 and str(r[3]).upper() == "WHO" and r[4] == 10}
                have_cm = {str(r[2]) for k2, rows in ext.items() if k2.endswith("_fs_tables_ext") for r in rows if len(r) > 3 and r[3]}
                doomed_sessions = {h["s"] for h in history if h["op"].get("fail_runtime")}
                for sid in sorted(case["config"]["tables"]):
                    r = f"R_{sid.upper()}"
                    if sid in doomed_sessions or not any(o.get("recreate") == r for o in case["ops"]):
                        continue
                    if r not in have_len or r not in have_cm:
                        violation = v_("metadata-lost/recreate-in-txn", "a table dropped and re-created inside a transaction has its declared VARCHAR length and comment afterwards (committed or rolled back)",
                                       {"table": r, "has_length_row": r in have_len, "has_comment_row": r in have_cm})
                        break
            if violation is None:
                # a rolled-back CREATE TABLE leaves nothing behind - also not in fakesnow's side tables (VARCHAR lengths, comments)
                gone = rolled_back_tables(history)
                if gone:
                    probes["rolled_back_create"] = len(gone)
                    left = [[k, r] for k, rows in sorted(world_ext(world).items()) for r in rows if len(r) > 2 and str(r[2]) in gone]
                    if left:
                        violation = v_("rollback-leaves-trace/side-tables", "a rolled-back CREATE TABLE left rows in fakesnow's metadata side tables", {"tables": sorted(gone), "rows": left[:4]})
        nontrivial = probes.get("foreign_read_during_open_txn", 0) + probes.get("foreign_read_after_commit", 0) > 0
        sched = res["schedule"] if res["schedule"] is not None else [o["s"] for o in case["ops"]]
        out = {
            "violations": [violation] if violation else [],
            "digest": sim.digest(),
            "steps": sim.engine_events,
            "ops": len(history),
            "preemptions": res["preemptions"],
            "strategy": case["strategy"],
            "probes": probes,
            "faults": {"preemption": res["preemptions"], "rollback": probes.get("rollback", 0), "failing_statement_in_txn": probes.get("fail_in_txn", 0)},
            "interleaving": fp(sched),
            "fingerprint": fp([[(o["s"], o["k"], o.get("txn"), "w" in o, "r" in o) for o in case["ops"]], sched if case["strategy"] != "serial-list" else None]),
            "nontrivial": nontrivial,
        }
        if res["schedule"] is not None:
            out["schedule"] = res["schedule"]
        return out
    finally:
        world.close()
        core.end()
