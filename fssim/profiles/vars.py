"""Profile `vars` (C15): session variables substitute exactly, per connection.

2 connections x 2 cursors interleaved at statement level; histories of SET / UNSET / use over names that are
prefixes and case variants of each other, values with special characters, uses in select list, WHERE and
INSERT, text that merely looks like a reference, undefined references inside side-effecting statements.
"""

from __future__ import annotations

from typing import Any

from ..model import Model
from ..sqlgen import Gen
from ..sqlworld import Oracle, run_serial_case

NAME = "vars"
PROPERTIES = ["C15"]
CLAUSE_PROPS = {"ctx-attrs": "C03", "ctx-function": "C03", "rowcount": "C04", "status-row": "C04", "catalog": "C15", "effect": "C15"}

NAMES = ["V", "V1", "V10", "VAR", "VAR_1", "MYVAR"]

SPEC = {
    "runs": {"quick": 500, "thorough": 15000},
    "wall": {"quick": 600, "thorough": 7200},
    "chunk": 10,
    "level": "exploration",
    "technique": "deterministic simulation: seeded SET/UNSET/use histories interleaved over 2 connections x 2 cursors, each step checked against a per-connection variable model plus full-snapshot invariance",
    "level_text": (
        "Seeded search over histories of SET / UNSET / use of session variables whose names are prefixes and case variants of each other, "
        "with special-character values, used in select lists, WHERE clauses and INSERTs through two cursors of two connections interleaved at "
        "statement level. After every statement each variable of each connection is read back through the API and compared with the model "
        "(own value, absent on the other connection), undefined references must raise the stated error and leave the snapshot unchanged. Sampling, not proof."
    ),
    "level_note": "Trusted: the variable model. Snowflake's backslash escape sequences inside string literals are not modelled (values avoid backslashes unless the hazard switch is on).",
    "rule": (
        "one evaluation = one seeded history (8-34 ops); non-trivial = at least 3 variable operations with at least one use of a variable "
        "while another variable whose name is a prefix/extension of it is defined on some connection; distinct = hash of the sequence of (statement kind, predicted-failure flag)"
    ),
    "bounds": "2 connections x 2 cursors, 8-34 ops, 6 variable names",
    "components_real": ["fakesnow/*", "sqlglot", "duckdb engine (in-memory)"],
    "components_stubbed": ["caller threads"],
    "assumptions": ["statement-level atomicity"],
    "mandatory_probes": {"any": ["op_set_var", "op_unset_var", "op_select_var", "op_insert_vars", "op_select_varpred", "prefix_pair_live", "bound_param_with_dollar"]},
}

HAZARDS = ["dollar_in_literal"]


def gen(rng: Any, prop: str, tier: str) -> dict[str, Any]:
    hazards = {h: rng.random() < 0.06 for h in HAZARDS}
    g = Gen(rng, Model(), vary_spelling=rng.random() < 0.7)
    sids = ["s0", "s1"]
    for sid in sids:
        g.connect(sid, "DB1", "S1")
    g.exec("s0", {"t": "create_table", "ref": [None, None, "T1"], "cols": [["A", "INT"], ["B", "VARCHAR(40)"]]})
    for _ in range(rng.randint(0, 3)):
        g.exec("s0", {"t": "insert", "ref": [None, None, "T1"], "rows": [[g.fresh(), f"r{g.fresh()}"]]})
    names = rng.sample(NAMES, rng.randint(2, len(NAMES)))
    for _ in range(rng.randint(8, 34)):
        sid = rng.choice(sids)
        cur = rng.choice([0, 1])
        have = sorted(g.m.sessions[sid]["vars"])
        kind = rng.choices(["set", "unset", "use", "use_where", "insert", "undef", "lookalike", "noise", "bound", "reset_episode"], [10, 2, 10, 4, 4, 3, 2, 2, 4, 3])[0]
        if kind == "set" or not have:
            n = rng.choice(names)
            r = rng.random()
            if r < 0.45:
                v: Any = g.fresh()
            else:
                pool = [f"w{g.fresh()}", "it's", "100%", "a b", "semi;colon", "dash--dash", 'dq"dq', "multi\nline", ""]
                if hazards["dollar_in_literal"]:
                    pool += ["$5 bill", "pay $V1 now"]
                pool += ["back\\slash", "tab\\there"]
                v = rng.choice(pool)
            g.exec(sid, {"t": "set_var", "name": n, "value": v, **({"label": "dollar-literal"} if isinstance(v, str) and "$" in v else {})}, cur=cur)
        elif kind == "unset":
            g.exec(sid, {"t": "unset_var", "name": rng.choice(have)}, cur=cur)
        elif kind == "use":
            k = rng.choice([1, 1, 2, 3, 4])  # also several references to the same variable in one statement
            g.exec(sid, {"t": "select_var", "names": [rng.choice(have) for _ in range(k)]}, cur=cur)
        elif kind == "use_where":
            ints = [n for n in have if isinstance(g.m.sessions[sid]["vars"][n], int)]
            if ints:
                g.exec(sid, {"t": "select_varpred", "ref": [None, None, "T1"], "col": "A", "var": rng.choice(ints)}, cur=cur)
        elif kind == "insert":
            ints = [n for n in have if isinstance(g.m.sessions[sid]["vars"][n], int)]
            strs = [n for n in have if isinstance(g.m.sessions[sid]["vars"][n], str)]
            if ints and strs:
                g.exec(sid, {"t": "insert_vars", "ref": [None, None, "T1"], "vars": [rng.choice(ints), rng.choice(strs)]}, cur=cur)
        elif kind == "undef":
            missing = [n for n in NAMES if n not in have]
            if missing:
                n = rng.choice(missing)
                if rng.random() < 0.5:
                    g.exec(sid, {"t": "select_var", "names": [n]}, cur=cur)
                else:
                    g.exec(sid, {"t": "insert_vars", "ref": [None, None, "T1"], "vars": [n, n]}, cur=cur)
        elif kind == "reset_episode" and have:
            # cursor A uses $v, the variable is SET again through the sibling cursor, cursor A repeats the identical statement
            n = rng.choice(have)
            st_use = {"t": "select_var", "names": [n]}
            from ..sqlgen import render

            sql = render(st_use, g.sp)
            g.m.apply(sid, st_use)
            g.ops.append({"s": sid, "k": "exec", "cur": cur, "sql": sql, "st": st_use})
            g.exec(sid, {"t": "set_var", "name": n, "value": g.fresh()}, cur=1 - cur)
            g.m.apply(sid, st_use)
            g.ops.append({"s": sid, "k": "exec", "cur": cur, "sql": sql, "st": st_use})
        elif kind == "bound":
            # a bound value is data, whatever it contains: it is never a variable reference
            text = rng.choice(["pay $V1 now", "$V", "cost $5", "100% $VAR_1", "plain", "it's $MYVAR"])
            if rng.random() < 0.6:
                row = [g.fresh(), text]
                st = {"t": "insert", "ref": [None, None, "T1"], "rows": [row], "label": "bound-param"}
                g.m.apply(sid, st)
                g.ops.append({"s": sid, "k": "exec", "cur": cur, "sql": "INSERT INTO T1 VALUES (%s, %s)", "params": row, "st": st})
            else:
                st = {"t": "select", "ref": [None, None, "T1"], "cols": ["A"], "where": ["cmp", "B", "=", ["lit", text]], "label": "bound-param"}
                g.m.apply(sid, st)
                g.ops.append({"s": sid, "k": "exec", "cur": cur, "sql": "SELECT A FROM T1 WHERE B = %s", "params": [text], "st": st})
        elif kind == "lookalike":
            if hazards["dollar_in_literal"]:
                sql, rows = rng.choice([("SELECT 'cost $5'", [["cost $5"]]), ("SELECT $$dollar quoted$$", [["dollar quoted"]]), ("SELECT 'a$V1'", [["a$V1"]])])
            else:
                sql, rows = rng.choice([("SELECT 'V1'", [["V1"]]), ("SELECT 'no refs here' AS V", [["no refs here"]]), ("SELECT 5 AS V1", [[5]])])
            g.ops.append({"s": sid, "k": "exec", "cur": cur, "sql": sql, "st": {"t": "const", "rows": rows, **({"label": "dollar-literal"} if "$" in sql else {})}})
        else:
            g.exec(sid, {"t": "select", "ref": [None, None, "T1"]}, cur=cur)
    return {"profile": NAME, "config": {"hazards": hazards, "fs_opts": {}}, "strategy": "serial", "ops": g.ops}


def _prefix_pair(model_vars: list[str]) -> bool:
    return any(a != b and (a.startswith(b) or b.startswith(a)) for a in model_vars for b in model_vars)


def run(case: dict[str, Any]) -> dict[str, Any]:
    hits = [0]
    live: set[str] = set()

    def focus(op: dict[str, Any], pred: dict[str, Any]) -> bool:
        st = op.get("st") or {}
        if st.get("t") == "set_var":
            live.add(st["name"].upper())
        if st.get("t") in ("select_var", "select_varpred", "insert_vars") and _prefix_pair(sorted(live)):
            hits[0] += 1
        return st.get("t") in ("set_var", "unset_var", "select_var", "select_varpred", "insert_vars")

    res = run_serial_case(case, Oracle("C15", CLAUSE_PROPS), sessions_every=False, check_vars=True, focus=focus, min_focus=3)
    res.setdefault("probes", {})["prefix_pair_live"] = hits[0]
    res["probes"]["bound_param_with_dollar"] = sum(1 for o in case["ops"] if o.get("params") and any(isinstance(x, str) and "$" in x for x in o["params"]))
    res["nontrivial"] = res["nontrivial"] and hits[0] > 0
    return res
