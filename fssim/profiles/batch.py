"""Profile `batch` (C16): execute_string equals one-by-one execution; nop_regexes only no-op matches.

TWIN WORLDS with the same generated history: world A receives the statements as one execute_string(text),
world B executes the same statements one by one on fresh cursors; with nop_regexes a third world C (no option)
executes only the statements that match no pattern.  Fault dimension: a failing statement at a random index of
the batch.  Oracle: per-statement results, the exception and the final snapshots are equal.
"""

from __future__ import annotations

import re
from typing import Any

from .. import core
from ..model import Model
from ..runner import fp
from ..sqlgen import Gen, lit
from ..world import World, exc_record, norm_rows

NAME = "batch"
PROPERTIES = ["C16"]
shrink_key = "stmts"

SPEC = {
    "runs": {"quick": 500, "thorough": 40000},
    "wall": {"quick": 600, "thorough": 7200},
    "chunk": 10,
    "level": "exploration",
    "technique": "deterministic simulation (twin worlds): the same seeded statement history executed as one execute_string batch, one by one, and (with nop_regexes) without the option; per-statement results, the injected failure and final snapshots compared",
    "level_text": (
        "Seeded statement lists (DDL, DML, queries over generated tables; literals containing ; quotes backslashes -- /* */ newlines and "
        "unicode; comments, empty statements and whitespace between and inside statements; tuple and dict cursor classes) with a failing "
        "statement injected at a random index, executed in twin worlds: as one execute_string(text) and one by one on fresh cursors. "
        "nop_regexes pattern sets that do / do not match are a per-run instance knob, with a third world without the option as reference. "
        "Compared: number of cursors, per-statement rows, the exception, and the final observable snapshot. Sampling, not proof."
    ),
    "level_note": "Trusted: the twin-world construction (both worlds run the same code; only the batching differs), the observer snapshot, Python's re for deciding which statements a pattern matches.",
    "rule": (
        "one evaluation = one seeded batch (2-15 statements) run in 2-3 worlds; non-trivial = the batch has >=3 statements and contains a "
        "literal with a special character, a comment/empty statement, a failing statement or a nop match; distinct = hash of (statement kinds, "
        "glue kinds, failing index, matched indices)"
    ),
    "bounds": "2-15 statements per batch, 1 session, <=3 nop patterns",
    "components_real": ["fakesnow/* incl. execute_string", "sqlglot", "duckdb engine (in-memory)"],
    "components_stubbed": ["nothing; three instances side by side in one process"],
    "assumptions": ["the worlds do not interact (separate FakeSnow instances)"],
    "mandatory_probes": {"any": ["failing_statement", "nop_match", "special_literal", "comment_or_empty", "dict_cursor_class", "variable_in_batch", "return_cursors_false", "no_semicolon_batch"]},
}

SPECIALS = ["please GRANT access", "semi;colon", "it's", 'dq"dq', "dash--dash", "/* not a comment */", "back\\slash", "new\nline", "tab\tin", "ünï©ode ✓", "", " lead and trail ", "%s %d %%", "a;b;c--d",
            # every kind of line boundary inside a literal: data, not layout
            "cr\r\nlf", "only\rcr", "form\x0cfeed", "nel\x85x", "ls\u2028ps\u2029end", "vt\x0bx"]
HAZARDS = ["dollar"]


def gen(rng: Any, prop: str, tier: str) -> dict[str, Any]:
    hz = {"dollar": rng.random() < 0.05}
    g = Gen(rng, Model(), vary_spelling=rng.random() < 0.6)
    g.connect("s0", "DB1", "S1")
    pre = []
    for t in ("T1", "T2"):
        g.exec("s0", {"t": "create_table", "ref": [None, None, t], "cols": [["A", "INT"], ["B", "VARCHAR(40)"]]})
        pre.append(g.ops[-1]["sql"])
    g.ops.clear()
    var_set = rng.random() < 0.4
    if var_set:
        pre.append(f"SET BV = {g.fresh()}")
    n = rng.choice([0, 1, 1, 1] + list(range(2, 16)) * 2)
    fail_at = rng.randrange(n) if n and rng.random() < 0.35 else None
    stmts: list[dict[str, Any]] = []
    for i in range(n):
        if i == fail_at:
            sql = rng.choice(["SELECT * FROM NO_SUCH_TABLE", "INSERT INTO NO_SUCH_TABLE VALUES (1, 'x')", "SELECT NOPE FROM T1", "CREATE TABLE T1 (A INT)"])
            stmts.append({"sql": sql, "kind": "fail"})
            continue
        tables = g.all_tables()
        kind = rng.choices(["insert", "select", "update", "delete", "create", "const", "noplike", "set", "usevar"], [10, 6, 3, 2, 2, 4, 3, 2, 3 if var_set else 0])[0]
        if kind == "insert":
            fq = rng.choice(tables)
            vals = []
            for _ in range(rng.choice([1, 1, 2])):
                s = rng.choice(SPECIALS + (["cost $5", "$$"] if hz["dollar"] else [])) if rng.random() < 0.6 else f"v{g.fresh()}"
                vals.append([g.fresh(), s])
            g.exec("s0", {"t": "insert", "ref": [None, None, fq[2]], "rows": vals})
            stmts.append({"sql": g.ops[-1]["sql"], "kind": "insert", "special": any(v[1] in SPECIALS for v in vals)})
        elif kind == "select":
            fq = rng.choice(tables)
            g.exec("s0", {"t": "select", "ref": [None, None, fq[2]]})
            stmts.append({"sql": g.ops[-1]["sql"] + " ORDER BY A", "kind": "select"})
        elif kind == "update":
            fq = rng.choice(tables)
            s = rng.choice(SPECIALS)
            g.exec("s0", {"t": "update", "ref": [None, None, fq[2]], "set": [["B", s]], "where": ["cmp", "A", rng.choice([">", "<"]), 1000 + rng.randint(0, 20)]})
            stmts.append({"sql": g.ops[-1]["sql"], "kind": "update", "special": True})
        elif kind == "delete":
            fq = rng.choice(tables)
            g.exec("s0", {"t": "delete", "ref": [None, None, fq[2]], "where": ["cmp", "A", "=", 1000 + rng.randint(0, 20)]})
            stmts.append({"sql": g.ops[-1]["sql"], "kind": "delete"})
        elif kind == "create":
            name = f"X{g.fresh()}"
            g.exec("s0", {"t": "create_table", "ref": [None, None, name], "cols": [["A", "INT"], ["B", "VARCHAR(40)"]]})
            stmts.append({"sql": g.ops[-1]["sql"], "kind": "create"})
        elif kind == "const":
            s = rng.choice(SPECIALS)
            stmts.append({"sql": f"SELECT {lit(s)} AS C, {g.fresh()} AS N", "kind": "const", "special": True})
        elif kind == "noplike":
            stmts.append({"sql": rng.choice(["CREATE STAGE my_stage", "ALTER SESSION SET QUERY_TAG = 'x'", "GRANT SELECT ON T1 TO ROLE r", "create stage other_stage"]), "kind": "noplike"})
        elif kind == "usevar":
            # a session variable set earlier (in the batch or before it) used inside the batch
            if rng.random() < 0.5:
                stmts.append({"sql": "SELECT $BV AS V", "kind": "usevar"})
            else:
                stmts.append({"sql": f"INSERT INTO T1 VALUES ($BV, 'var{g.fresh()}')", "kind": "usevar"})
        else:
            stmts.append({"sql": f"SET BV = {g.fresh()}", "kind": "set"})
            var_set = True
    # glue: separators, comments and empty statements between the statements
    glue = []
    for _ in range(n + 1):
        glue.append(rng.choice([";", ";\n", " ;  ", ";\n-- a comment; with a semicolon\n", ";\n/* block; comment */\n", ";;", ";\n\n;", "; -- trailing\n"]))
    if n <= 1:
        # a batch without any semicolon: one statement (or none) with comments around it
        glue = [rng.choice(["", "\n", " -- trailing comment", "\n/* after */", ";"])]
    nop = None
    r = rng.random()
    if r < 0.5:
        nop = rng.sample([r"^CREATE\s+STAGE", r"^ALTER SESSION", r"^GRANT ", r"GRANT ", r".*QUERY_TAG", r"^NEVER MATCHES", r"^INSERT INTO T2"], rng.randint(1, 3))
    has_nopish = any(s["kind"] == "noplike" for s in stmts)
    if has_nopish and nop is None:
        nop = [r"^CREATE\s+STAGE", r"^ALTER SESSION", r"^GRANT "]
    if has_nopish and nop is not None:
        # statements fakesnow cannot run must all be covered, otherwise the batch fails there (still a valid scenario, but keep most runs progressing)
        for p in (r"^CREATE\s+STAGE", r"^ALTER SESSION", r"^GRANT "):
            if p not in nop and rng.random() < 0.85:
                nop.append(p)
    return {
        "profile": NAME,
        "config": {"nop": nop, "pre": pre, "hazards": hz, "dict": rng.random() < 0.25, "return_cursors": rng.random() >= 0.2, "reuse_cursor": rng.random() < 0.4, "lead": rng.choice(["", "\n", "-- leading comment\n", "/* lead */ "]) if n else rng.choice(["-- only a comment", "/* nothing */", "  ", ";"])},
        "stmts": stmts,
        "glue": glue,
        "ops": [],
    }


def compose(case: dict[str, Any]) -> str:
    glue = case["glue"]
    text = case["config"]["lead"]
    for i, s in enumerate(case["stmts"]):
        text += s["sql"] + glue[i % len(glue)]
    return text


def matches(nop: list[str] | None, sql: str) -> bool:
    return bool(nop) and any(re.match(p, sql, re.IGNORECASE) for p in nop)


def _world(sim: core.Sim, cfg: dict[str, Any], with_nop: bool) -> tuple[World, Any]:
    w = World(sim, nop_regexes=cfg["nop"]) if (with_nop and cfg["nop"]) else World(sim)
    conn = w.fs.connect(database="DB1", schema="S1")
    w.conns["s0"] = conn
    for sql in cfg["pre"]:
        conn.cursor().execute(sql)
    return w, conn


def _one_by_one(conn: Any, stmts: list[str], dict_cursor: bool, reuse: bool = False) -> tuple[list[Any], dict[str, Any] | None]:
    """The statements one at a time: each on a fresh cursor, or (reuse) all on one cursor whose previous result was fetched."""
    from snowflake.connector.cursor import DictCursor, SnowflakeCursor

    results = []
    cur = None
    for sql in stmts:
        try:
            if cur is None or not reuse:
                cur = conn.cursor(DictCursor if dict_cursor else SnowflakeCursor)
            cur.execute(sql)
            results.append({"rows": norm_rows(cur.fetchall()), "rowcount": cur.rowcount})
        except BaseException as e:  # noqa: BLE001
            return results, exc_record(e)
    return results, None


def v_(signature: str, clause: str, detail: Any) -> dict[str, Any]:
    return {"property": "C16", "signature": signature, "clause": clause, "detail": detail}


def run(case: dict[str, Any]) -> dict[str, Any]:
    from snowflake.connector.cursor import DictCursor, SnowflakeCursor

    sim = core.begin()
    cfg = case["config"]
    stmts = [s["sql"] for s in case["stmts"]]
    text = compose(case)
    worlds: list[World] = []
    probes: dict[str, int] = {}
    violation = None
    try:
        with sim.quiet():
            wa, ca = _world(sim, cfg, True)
            wb, cb = _world(sim, cfg, True)
            worlds += [wa, wb]
        # world A: one batch
        sim.set_session("A")
        err_a = None
        res_a: list[Any] = []
        try:
            rc = cfg.get("return_cursors", True)
            curs = list(ca.execute_string(text, cursor_class=DictCursor if cfg["dict"] else SnowflakeCursor, return_cursors=rc))
            res_a = [{"rows": norm_rows(c.fetchall()), "rowcount": c.rowcount} for c in curs]
            if not rc and curs:
                violation = v_("return-cursors-false-returns-cursors", "return_cursors=False returns no cursors", {"n": len(curs)})
        except BaseException as e:  # noqa: BLE001
            err_a = exc_record(e)
        # world B: one by one
        sim.set_session("B")
        res_b, err_b = _one_by_one(cb, stmts, cfg["dict"], reuse=bool(cfg.get("reuse_cursor")))
        sim.set_session("main")
        matched = [i for i, s in enumerate(stmts) if matches(cfg["nop"], s)]
        fail_idx = [i for i, s in enumerate(case["stmts"]) if s["kind"] == "fail"]
        probes["failing_statement"] = 1 if err_b is not None else 0
        probes["nop_match"] = len(matched)
        probes["special_literal"] = sum(1 for s in case["stmts"] if s.get("special"))
        probes["comment_or_empty"] = sum(1 for g in case["glue"][: len(stmts)] if "--" in g or "/*" in g or ";;" in g or "\n;" in g)
        probes["dict_cursor_class"] = 1 if cfg["dict"] else 0
        probes["return_cursors_false"] = 0 if cfg.get("return_cursors", True) else 1
        probes["variable_in_batch"] = sum(1 for s in case["stmts"] if s["kind"] == "usevar")
        key = lambda e: None if e is None else [e.get("exc"), e.get("errno"), e.get("sqlstate")]  # noqa: E731
        if violation is not None:
            pass
        elif (err_a is None) != (err_b is None) or key(err_a) != key(err_b):
            violation = v_(f"exception-differs/batch={key(err_a)}/single={key(err_b)}", "execute_string must fail exactly where and how one-by-one execution fails",
                           {"text": text, "batch_error": err_a, "one_by_one_error": err_b, "failing_statement": stmts[len(res_b)] if err_b else None})
        elif not cfg.get("return_cursors", True):
            pass  # no per-statement results to compare; effects and the exception are compared below
        elif err_a is None and len(res_a) != len(res_b):
            violation = v_("cursor-count", "one cursor per statement, comments and empty statements ignored", {"text": text, "batch_cursors": len(res_a), "statements": len(res_b)})
        elif err_a is None and res_a != res_b:
            i = next(j for j in range(len(res_a)) if res_a[j] != res_b[j])
            violation = v_(f"result-differs/{case['stmts'][i]['kind']}", "per-statement results of the batch must equal one-by-one execution",
                           {"statement": stmts[i], "batch": res_a[i], "one_by_one": res_b[i]})
        if violation is None:
            sa, sb = wa.observe(with_sessions=False), wb.observe(with_sessions=False)
            if sa != sb:
                d = [k for k in sa if sa[k] != sb[k]]
                rows = {t: {"batch": sa["rows"].get(t), "one_by_one": sb["rows"].get(t)} for t in set(sa.get("rows", {})) | set(sb.get("rows", {})) if sa["rows"].get(t) != sb["rows"].get(t)}
                violation = v_(f"snapshot-differs/{'+'.join(d)}" + ("/after-failure" if err_b else ""), "the effects of the batch must equal one-by-one execution (earlier statements applied, later ones not)",
                               {"text": text, "differing": d, "rows": dict(list(rows.items())[:2])})
        # nop_regexes: world B against world C (no option, only the non-matching statements)
        if violation is None and cfg["nop"]:
            with sim.quiet():
                wc, cc = _world(sim, cfg, False)
                worlds.append(wc)
            upto = len(res_b) + (1 if err_b else 0)
            plain = [s for i, s in enumerate(stmts[:upto]) if i not in matched]
            res_c, err_c = _one_by_one(cc, plain, cfg["dict"], reuse=bool(cfg.get("reuse_cursor")))
            ok_row = [["Statement executed successfully."]]
            for i in matched:
                if i < len(res_b):
                    rows = res_b[i]["rows"]
                    got = [[kv[1] for kv in r["v"]] for r in rows] if rows and isinstance(rows[0], dict) else rows
                    keys = [[kv[0] for kv in r["v"]] for r in rows] if rows and isinstance(rows[0], dict) else None
                    if got != ok_row or (keys is not None and keys != [["status"]]):
                        violation = v_("nop-result", "a statement matching a nop pattern returns the one-row success status", {"statement": stmts[i], "result": res_b[i]})
                        break
            if violation is None:
                res_b_plain = [r for i, r in enumerate(res_b) if i not in matched]
                if err_b and not err_c and len(res_b) in matched and "Session variable" in str(err_b.get("msg")) and cfg["hazards"].get("dollar"):
                    # the statement that raised is itself a match: it should have been no-op'd, but variables are inlined before the patterns
                    # are looked at, and a $word inside its literal counts as a variable (the known C15 finding dollar-literal)
                    violation = v_("nop-match-raises/dollar-literal", "a statement matching a nop pattern is no-op'd whatever its literals contain",
                                   {"patterns": cfg["nop"], "statement": stmts[len(res_b)], "error": err_b})
                elif key(err_b) != key(err_c) or res_b_plain != res_c:
                    violation = v_("nop-changes-other-statements", "statements that match no pattern behave exactly as without the option",
                                   {"patterns": cfg["nop"], "with_option": [res_b_plain[-2:], err_b], "without_option": [res_c[-2:], err_c]})
                elif wb.observe(with_sessions=False) != wc.observe(with_sessions=False):
                    violation = v_("nop-has-effect", "a no-op'd statement has no effect and the others the same effect as without the option", {"patterns": cfg["nop"], "matched": [stmts[i] for i in matched]})
        kinds = [s["kind"] for s in case["stmts"]]
        probes["no_semicolon_batch"] = 1 if ";" not in text else 0
        nontrivial = (len(stmts) >= 3 or ";" not in text) and (probes["special_literal"] + probes["comment_or_empty"] + probes["failing_statement"] + probes["nop_match"] > 0)
        return {
            "violations": [violation] if violation else [],
            "digest": sim.digest(),
            "steps": sim.engine_events,
            "ops": len(stmts),
            "probes": probes,
            "faults": {"failing_statement_in_batch": probes["failing_statement"]},
            "strategy": "twin",
            "fingerprint": fp([kinds, [g.strip()[:3] for g in case["glue"][: len(stmts)]], fail_idx, matched]),
            "nontrivial": nontrivial,
        }
    finally:
        for w in worlds:
            w.close()
        core.end()
