"""Profile `fail` (C07): failures are Snowflake errors with the right codes, and change nothing.

The multi-session world (contexts, variables, one open transaction at a time) with a failing statement
injected at random points of the history, then arbitrary further use; `close()` at a random point followed
by every kind of use.  Oracle: DESIGN.md section 7 (C07).
"""

from __future__ import annotations

from typing import Any

from ..model import E_ANY, E_MISSING, E_TABLE_MISSING, Model
from ..sqlgen import Gen
from ..sqlworld import Oracle, run_serial_case

NAME = "fail"
PROPERTIES = ["C07"]
CLAUSE_PROPS = {"ctx-attrs": "C03", "ctx-function": "C03", "rowcount": "C04", "status-row": "C04"}

SPEC = {
    "runs": {"quick": 400, "thorough": 15000},
    "wall": {"quick": 600, "thorough": 7200},
    "chunk": 10,
    "level": "exploration",
    "technique": "deterministic simulation with fault injection: failing statements and close() injected at seeded points of multi-session histories; outcome class/codes, cursor.sqlstate and full-snapshot invariance checked against a reference model",
    "level_text": (
        "Seeded search over multi-session histories (own contexts, session variables, an open transaction with pending writes) into which "
        "failing statements of every listed class (unknown table/view/schema/database/column/function, already exists, wrong number of "
        "values, no current database/schema, undefined variable; in FROM, joins, subqueries, DML targets, DDL; at each qualification level) "
        "and close() are injected at random points. Checked after every statement: exception class and (errno, sqlstate), cursor.sqlstate "
        "until the next execute, the full observable snapshot (data, catalog, every session's context and variables) unchanged, the open "
        "transaction still open with its pending writes (by continuation), closed connection => DatabaseError 250002/08003. Sampling, not proof."
    ),
    "level_note": "Trusted: the reference model; the failure classes are produced the way users meet them (statements referring to missing/duplicate things), not by injected engine exceptions.",
    "rule": (
        "one evaluation = one seeded history (8-36 ops, 2-3 sessions); non-trivial = at least one injected failing statement (or use after close) "
        "was executed and followed by at least one further operation; distinct = hash of the sequence of (statement kind, predicted-failure flag)"
    ),
    "bounds": "2-3 sessions, 8-36 ops, 1 database x 2 schemas x 3 tables, at most one open transaction at a time",
    "components_real": ["fakesnow/*", "sqlglot", "duckdb engine (in-memory)", "snowflake.connector error classes"],
    "components_stubbed": ["caller threads (one thread impersonates the sessions in the scheduled statement order)"],
    "assumptions": ["statement-level atomicity", "writes of concurrent open transactions are out of scope here (C13)"],
    "mandatory_probes": {"any": ["predicted_error", "fail_in_txn", "use_after_close", "predicted_2003", "predicted_90105", "op_const"]},
}

HAZARDS = ["drop_database", "unknown_db_ddl_in_txn"]


def gen(rng: Any, prop: str, tier: str) -> dict[str, Any]:
    hazards = {h: rng.random() < 0.05 for h in HAZARDS}
    k = rng.choice([2, 2, 3])
    g = Gen(rng, Model(), vary_spelling=rng.random() < 0.5)
    sids = [f"s{i}" for i in range(k)]
    for i, sid in enumerate(sids):
        r = rng.random()
        if r < 0.75 or i == 0:
            g.connect(sid, "DB1", rng.choice(["S1", "S2"]))
        elif r < 0.9:
            g.connect(sid, "DB1", None)
        else:
            g.connect(sid, None, None)
    if rng.random() < 0.6:
        g.exec(sids[0], {"t": "create_db", "name": "DB2"})
        g.exec(sids[0], {"t": "create_schema", "db": "DB2", "name": "S1"})
    closed: set[str] = set()
    txn_owner: list[str | None] = [None]
    p_fail = rng.choice([0.15, 0.3, 0.5])
    use_nop = rng.random() < 0.4
    for _ in range(rng.randint(8, 36)):
        sid = rng.choice(sids)
        if sid in closed:
            _after_close(g, rng, sid)
            continue
        if rng.random() < 0.03 and len(closed) < k - 1 and txn_owner[0] != sid:
            g.ops.append({"s": sid, "k": "close"})
            g.m.close(sid)
            closed.add(sid)
            continue
        if rng.random() < 0.01:
            # a self-contained failure scenario on an instance of its own (what it needs lies behind C03's known findings here)
            g.ops.append({"s": sid, "k": "episode", "prop": "C07", "name": rng.choice(["stale-schema-after-use-database", "use-schema-after-foreign-drop"])})
            continue
        if use_nop and rng.random() < 0.12:
            # a statement the instance is configured to no-op: succeeds with the status row, and resets cursor.sqlstate like any execute
            g.ops.append({"s": sid, "k": "exec", "cur": rng.choice([0, 0, 1]), "sql": rng.choice(["CALL my_proc()", "call other_proc(1, 'x')"]), "st": {"t": "const", "rows": [["Statement executed successfully."]], "label": "nop"}})
            continue
        if rng.random() < p_fail:
            _failing(g, rng, sid, hazards, txn_owner)
        else:
            _normal(g, rng, sid, txn_owner)
    return {"profile": NAME, "config": {"k": k, "hazards": hazards, "fs_opts": {"nop_regexes": ["^CALL "]} if use_nop else {}}, "strategy": "serial", "ops": g.ops}


def _after_close(g: Gen, rng: Any, sid: str) -> None:
    r = rng.random()
    if r < 0.6:
        g.exec(sid, {"t": "select", "ref": ["DB1", "S1", "T1"]}, cur=rng.choice([0, 2]))
    elif r < 0.8:
        g.ops.append({"s": sid, "k": rng.choice(["commit", "rollback"])})
    else:
        g.exec(sid, {"t": "set_var", "name": "V1", "value": 1})


def _normal(g: Gen, rng: Any, sid: str, txn_owner: list[str | None]) -> None:
    m = g.m
    cd, cs = m.session_ctx(sid)
    others_frozen = txn_owner[0] is not None and txn_owner[0] != sid  # someone else's transaction is open: read only
    saved = m.dbs
    if m.sessions[sid].get("txn") is not None:
        m.dbs = m.sessions[sid]["txn"]
    try:
        tables = g.all_tables()
    finally:
        m.dbs = saved
    kinds = ["select", "set_var", "select_var", "ctxq"]
    weights = [6, 3, 3, 1]
    if not others_frozen:
        kinds += ["create_table", "insert", "update", "delete", "txn", "use_schema", "create_schema"]
        weights += [5, 10, 4, 3, 6, 2, 1]
    kind = rng.choices(kinds, weights)[0]
    if kind == "create_table":
        if cd is None or cs is None:
            return
        g.exec(sid, {"t": "create_table", "ref": g.qualify(sid, (cd, cs, rng.choice(["T1", "T2", "T3"])), 0.0), "cols": [["A", "INT"], ["B", "VARCHAR(20)"]],
                     "ine": rng.random() < 0.5})
    elif kind in ("select", "insert", "update", "delete") and tables:
        fq = rng.choice(tables)
        vis = _visible(g, sid, fq)
        if not vis:
            return
        ref = g.qualify(sid, fq, 0.0)
        if kind == "select":
            g.exec(sid, {"t": "select", "ref": ref})
        elif kind == "insert":
            g.exec(sid, {"t": "insert", "ref": ref, "rows": [[g.fresh(), sid]]})
        elif kind == "update":
            g.exec(sid, {"t": "update", "ref": ref, "set": [["B", f"u{g.fresh()}"]], "where": ["cmp", "A", ">", g.uid - rng.randint(1, 6)]})
        else:
            g.exec(sid, {"t": "delete", "ref": ref, "where": ["cmp", "A", "<", 1000 + rng.randint(1, 8)]})
    elif kind == "txn":
        mine = m.sessions[sid].get("txn") is not None
        via_api = rng.random() < 0.3
        if mine:
            t = rng.choice(["commit", "rollback"])
            txn_owner[0] = None
        elif txn_owner[0] is None and rng.random() < 0.8:
            t = "begin"
            via_api = False
            txn_owner[0] = sid
        else:
            t = rng.choice(["commit", "rollback"])  # without a transaction: no-op with the status row
        if via_api:
            g.ops.append({"s": sid, "k": t})
            m.apply(sid, {"t": t})
        else:
            g.exec(sid, {"t": t})
    elif kind == "use_schema":
        if cd is None:
            return
        sch = [s for d, s in g.all_schemas() if d == cd]
        if sch:
            g.exec(sid, {"t": "use_schema", "db": rng.choice([None, cd]), "name": rng.choice(sch)})
    elif kind == "create_schema":
        if cd is None or m.sessions[sid].get("txn") is not None:
            return
        g.exec(sid, {"t": "create_schema", "db": None, "name": rng.choice(["S1", "S2"]), "ine": True})
    elif kind == "set_var":
        g.exec(sid, {"t": "set_var", "name": rng.choice(["V1", "V2"]), "value": rng.choice([g.fresh(), f"w{g.fresh()}"])})
    elif kind == "select_var":
        have = sorted(m.sessions[sid]["vars"])
        if have:
            g.exec(sid, {"t": "select_var", "names": [rng.choice(have)]}, cur=rng.choice([0, 1]))
    elif kind == "ctxq":
        g.exec(sid, {"t": "ctxq"})


def _visible(g: Gen, sid: str, fq: tuple[str, str, str]) -> bool:
    """Table exists in the view of this session (committed, or in its own open transaction)."""
    m = g.m
    dbs = m.sessions[sid].get("txn") or m.dbs
    d, s, n = fq
    return d in dbs and s in dbs[d] and n in dbs[d][s]["tables"]


def _failing(g: Gen, rng: Any, sid: str, hz: dict[str, bool], txn_owner: list[str | None]) -> None:
    m = g.m
    cd, cs = m.session_ctx(sid)
    dbs = m.sessions[sid].get("txn") or m.dbs
    tables = [(d, s, n) for d in sorted(dbs) for s in sorted(dbs[d]) for n in sorted(dbs[d][s]["tables"])]
    sp = g.sp
    cur = rng.choice([0, 0, 1])
    kind = rng.choice(["unknown_table", "unknown_table_pos", "unknown_schema", "unknown_db", "unknown_column", "unknown_function",
                       "exists", "n_values", "no_ctx", "undef_var", "drop_database"])
    if kind == "drop_database":
        if hz["drop_database"] and m.sessions[sid].get("txn") is None:
            g.exec(sid, {"t": "raw_fail", "sql": "DROP DATABASE DB9", "errs": E_MISSING, "why": "unknown database"}, cur=cur)
        return
    if kind == "unknown_table":
        d = cd or "DB1"
        s = cs or "S1"
        ref = g.qualify(sid, (d, s, "T9"), 0.0)
        t = rng.choice(["select", "insert", "update", "delete", "drop_table", "truncate", "drop_view"])
        st: dict[str, Any] = {"t": t, "ref": ref}
        if t == "insert":
            st["rows"] = [[1, "x"]]
        if t == "update":
            st["set"] = [["A", 1]]
        g.exec(sid, st, cur=cur)
    elif kind == "unknown_table_pos" and tables:
        fq = rng.choice(tables)
        ref = g.qualify(sid, fq, 0.0)
        t1 = sp.ref(ref)
        t9 = sp.ref(ref[:2] + ["T9"])
        forms = [
            f"SELECT * FROM {t1} x JOIN {t9} y ON x.A = y.A",
            f"SELECT * FROM {t1} WHERE A IN (SELECT A FROM {t9})",
            f"INSERT INTO {t1} SELECT * FROM {t9}",
            f"CREATE TABLE {sp.ref(ref[:2] + ['T8'])} AS SELECT * FROM {t9}",
            f"CREATE VIEW {sp.ref(ref[:2] + ['V8'])} AS SELECT * FROM {t9}",
            f"ALTER TABLE {t9} ADD COLUMN X INT",
            f"UPDATE {t1} SET A = (SELECT MAX(A) FROM {t9})",
            f"DELETE FROM {t1} WHERE A IN (SELECT A FROM {t9})",
        ]
        forms.append(f"DESCRIBE TABLE {t9}")
        # MERGE is carried out in several engine calls: a failure of the first one must leave nothing behind either
        forms += [
            f"MERGE INTO {t1} USING {t9} src ON {ref[2]}.A = src.A WHEN NOT MATCHED THEN INSERT (A, B) VALUES (src.A, src.B)",
            f"MERGE INTO {t9} USING (SELECT 1 AS A, 'm' AS B) src ON T9.A = src.A WHEN NOT MATCHED THEN INSERT (A, B) VALUES (src.A, src.B)",
        ]
        g.exec(sid, {"t": "raw_fail", "sql": rng.choice(forms), "errs": E_TABLE_MISSING, "why": "unknown table", "needs_ctx": ref}, cur=cur)
    elif kind == "unknown_schema":
        r = rng.random()
        if r < 0.4:
            g.exec(sid, {"t": "select", "ref": [rng.choice([None] + sorted(m.dbs)), "S9", "T1"]}, cur=cur)
        elif r < 0.6:
            g.exec(sid, {"t": "create_table", "ref": [rng.choice([None, "DB1"]), "S9", "T1"], "cols": [["A", "INT"]]}, cur=cur)
        elif r < 0.8:
            g.exec(sid, {"t": "drop_schema", "db": rng.choice([None, "DB1"]), "name": "S9"}, cur=cur)
        else:
            g.exec(sid, {"t": "use_schema", "db": rng.choice(sorted(m.dbs)), "name": "S9"}, cur=cur)
    elif kind == "unknown_db":
        r = rng.random()
        if r < 0.4:
            g.exec(sid, {"t": "select", "ref": ["DB9", "S1", "T1"]}, cur=cur)
        elif r < 0.6:
            g.exec(sid, {"t": "use_db", "name": "DB9"}, cur=cur)
        elif r < 0.8:
            if m.sessions[sid].get("txn") is not None and not hz["unknown_db_ddl_in_txn"]:
                return  # known finding: DDL on an unknown database inside a writing transaction hits DuckDB's one-database-per-transaction limit
            g.exec(sid, {"t": "create_schema", "db": "DB9", "name": "S1"}, cur=cur)
        else:
            g.exec(sid, {"t": "insert", "ref": ["DB9", "S1", "T1"], "rows": [[1, "x"]]}, cur=cur)
    elif kind == "unknown_column" and tables:
        fq = rng.choice(tables)
        ref = g.qualify(sid, fq, 0.0)
        t1 = sp.ref(ref)
        forms = [f"SELECT NOPE FROM {t1}", f"UPDATE {t1} SET NOPE = 1", f"DELETE FROM {t1} WHERE NOPE = 1",
                 f"INSERT INTO {t1} (NOPE) VALUES (1)", f"SELECT A FROM {t1} ORDER BY NOPE", f"UPDATE {t1} SET A = 1 WHERE NOPE IS NULL"]
        g.exec(sid, {"t": "raw_fail", "sql": rng.choice(forms), "errs": E_MISSING, "why": "unknown column", "needs_ctx": ref}, cur=cur)
    elif kind == "unknown_function":
        if tables and rng.random() < 0.6:
            fq = rng.choice(tables)
            ref = g.qualify(sid, fq, 0.0)
            g.exec(sid, {"t": "raw_fail", "sql": f"SELECT NOSUCHFUNC(A) FROM {sp.ref(ref)}", "errs": E_MISSING, "why": "unknown function", "needs_ctx": ref}, cur=cur)
        else:
            g.exec(sid, {"t": "raw_fail", "sql": "SELECT NOSUCHFUNC(1)", "errs": E_MISSING, "why": "unknown function"}, cur=cur)
    elif kind == "exists":
        if txn_owner[0] is not None and txn_owner[0] != sid:
            return  # would be a write-write conflict with the open transaction: outside the property (non-conflicting writes)
        r = rng.random()
        if r < 0.5 and tables:
            fq = rng.choice(tables)
            cols = rng.choice([[["A", "INT"]], [["A", "INT"], ["B", "VARCHAR(99)"]], [["B", "VARCHAR(7)"]]])
            if rng.random() < 0.3:
                ref = g.qualify(sid, fq, 0.0)
                g.exec(sid, {"t": "raw_fail", "sql": f"ALTER TABLE {sp.ref(ref)} ADD COLUMN B VARCHAR(7)", "errs": E_MISSING, "why": "column exists", "needs_ctx": ref}, cur=cur)
            else:
                g.exec(sid, {"t": "create_table", "ref": g.qualify(sid, fq, 0.0), "cols": cols, **({"comment": "other"} if rng.random() < 0.3 else {})}, cur=cur)
        elif r < 0.75 and m.sessions[sid].get("txn") is None:
            sch = g.all_schemas()
            if sch:
                d, s = rng.choice(sch)
                g.exec(sid, {"t": "create_schema", "db": d, "name": s}, cur=cur)
        elif m.sessions[sid].get("txn") is None:
            g.exec(sid, {"t": "create_db", "name": "DB1"}, cur=cur)
    elif kind == "n_values" and tables:
        fq = rng.choice(tables)
        g.exec(sid, {"t": "insert", "ref": g.qualify(sid, fq, 0.0), "rows": [[1, "x", 3]]}, cur=cur)
    elif kind == "no_ctx" and (cd is None or cs is None):
        t = rng.choice(["select", "insert", "create_table", "drop_table"])
        st = {"t": t, "ref": [None, None if cs is None else "S1", "T1"]}
        if cd is not None and cs is None:
            st["ref"] = [None, None, "T1"]
        if t == "insert":
            st["rows"] = [[1, "x"]]
        if t == "create_table":
            st["cols"] = [["A", "INT"]]
        g.exec(sid, st, cur=cur)
    elif kind == "undef_var":
        if tables and rng.random() < 0.6:
            fq = rng.choice(tables)
            ref = g.qualify(sid, fq, 0.0)
            sql = rng.choice([f"INSERT INTO {sp.ref(ref)} VALUES ($NOPE, 'x')", f"DELETE FROM {sp.ref(ref)} WHERE A = $NOPE", f"UPDATE {sp.ref(ref)} SET A = $NOPE"])
        else:
            sql = "SELECT $NOPE"
        g.exec(sid, {"t": "raw_fail", "sql": sql, "errs": E_ANY, "why": "Session variable '$NOPE' does not exist", "msg": "Session variable '$NOPE' does not exist"}, cur=cur)


def _focus(op: dict[str, Any], pred: dict[str, Any]) -> bool:
    return not pred["ok"]


def run(case: dict[str, Any]) -> dict[str, Any]:
    oracle = Oracle("C07", CLAUSE_PROPS)
    oracle.fail_prop = "C07"
    res = run_serial_case(case, oracle, focus=_focus, fail_profile=True)
    return res
