"""Profile `crash` (C18): with db_path, committed state survives exit, exceptions and kills.

Process A (forked child) runs a history inside `with fakesnow.patch(db_path=D)`; it ends by clean exit, by an
exception raised in the body at an op boundary, by _exit before/after engine event #k, or through the
LD_PRELOAD shim at disk syscall #K (exit before the call, or torn write).  Process B (fresh fork) patches
with the same D, connects to the same databases and observes.  For each sampled history the crash points are
ENUMERATED (capped), not sampled.  Oracle: durability acceptance set of DESIGN.md appendix B, taken
differentially from a fault-free reference execution of the same history (live committed snapshots).
"""

from __future__ import annotations

import ctypes
import json
import os
import select
import shutil
import signal
import time
from typing import Any

from .. import core
from ..model import Model
from ..runner import fp
from ..sqlgen import Gen
from ..world import World, norm_rows, scratch_dir, sort_key

NAME = "crash"
PROPERTIES = ["C18"]
CAP_POINTS = {"quick": 40, "thorough": 200}

SPEC = {
    "runs": {"quick": 100, "thorough": 400},
    "wall": {"quick": 900, "thorough": 7200},
    "chunk": 1,
    "min_budget": 40.0,
    "max_minimise": 4,
    "minimise_wall": 150,
    "level": "fault_enumeration",
    "technique": "deterministic simulation with fault injection: forked writer/restart process pairs; per seeded history every op boundary (clean exit, body exception), every engine call (kill before/after) and every file-system call (kill / torn write / EIO once / disk full from there on, via LD_PRELOAD shim) is enumerated; restart state checked against a durability acceptance set",
    "level_text": (
        "For each seeded short history (3-12 ops: DDL, DML, transactions left open or committed, CREATE DATABASE by statement, comments "
        "and VARCHAR lengths, MERGE, views) the crash points are enumerated: every op boundary x {clean exit, exception in the with-body}, "
        "every engine call x {kill before, kill after}, every write/pwrite/fsync/ftruncate/unlink/rename on the database files x {kill, "
        "torn write, the call failing once with EIO, the disk being full from this call on (ENOSPC) - after a disk error the program stops at the first statement that "
        "reports it and leaves cleanly or by an exception} (capped per history, evenly spaced beyond the cap); up to three points per history where the block is left by an exception with the "
        "connections still referenced and the same process enters patch() on the same directory again for the rest of the history. Every other restart reaches "
        "the databases beyond the first by CREATE DATABASE IF NOT EXISTS instead of connect(). A fresh process then re-opens the same db_path and its observable "
        "state (catalog, rows, comments, VARCHAR lengths) must equal the committed state before or after the single in-flight statement, "
        "exactly the committed state after a clean/exception exit. Histories are sampled; crash points per history are enumerated."
    ),
    "level_note": (
        "Trusted: fork of a pre-imported worker as the process boundary; kill = process death with the page cache intact (power loss is "
        "outside the property); crash points inside an engine call exist only at its file-system calls; the reference snapshots come from "
        "a fault-free execution of the same history by the same code (durability is compared with live committed state, whose correctness is the other properties' subject)."
    ),
    "rule": (
        "one evaluation = one writer/restart process pair (one crash point of one history); non-trivial = the fault actually fired "
        "(the writer died or left at the planned point) after at least one statement had been acknowledged or while one was in flight; "
        "distinct = (history fingerprint, fault kind, in-flight statement kind, index of the point)"
    ),
    "bounds": "1-2 sessions, 3-12 ops per history, <=40 (quick) / <=200 (thorough) fault points per history",
    "components_real": ["fakesnow/* incl. patch()", "snowflake.connector (patched entry points)", "sqlglot", "duckdb engine with its real file format and WAL on a tmpfs/disk directory", "process death (fork + _exit)"],
    "components_stubbed": ["kill timing (chosen engine call / syscall index instead of a signal)", "torn write (page-aligned prefix written by the shim)", "disk errors (the shim returns -1 with EIO / ENOSPC instead of calling the kernel)"],
    "assumptions": ["page cache survives the kill", "single writer process per db_path at a time"],
    "mandatory_probes": {"any": ["kill_before_event", "kill_after_event", "kill_at_syscall", "torn_write", "disk_eio_once", "disk_full", "disk_error_surfaced_in_statement", "exception_then_second_patch", "restart_reaches_database_by_statement", "clean_exit", "body_exception", "inflight_statement", "open_txn_at_fault", "memory_scenario", "memory_next_to_db_path", "own_view_checks"]},
}

HAZARDS = ["multi_call_statement"]


class BodyError(Exception):
    pass


# --------------------------------------------------------------------------- generation


def gen(rng: Any, prop: str, tier: str) -> dict[str, Any]:
    if rng.random() < 0.1:
        return gen_memory(rng, tier)
    hazards = {"multi_call_statement": rng.random() < 0.15, "replace_in_txn_after_dml": rng.random() < 0.08}
    g = Gen(rng, Model(), vary_spelling=False)
    dml_in_txn: set[str] = set()
    two = rng.random() < 0.3
    sids = ["s0", "s1"] if two else ["s0"]
    g.connect("s0", rng.choice(["DB1", "db1", "Db1"]), rng.choice(["S1", "s1"]))
    if two:
        g.connect("s1", rng.choice(["DB1", "db1"]), rng.choice(["S1", "S2", "s2"]))
    n = rng.randint(3, 12)
    if rng.random() < (0.5 if hazards["multi_call_statement"] else 0.15):
        # a second database made by statement early on, so that later statements reach across databases
        g.exec("s0", {"t": "create_db", "name": "DB2"})
        g.exec("s0", {"t": "create_schema", "db": "DB2", "name": "S1"})
        if hazards["multi_call_statement"]:
            g.exec("s0", {"t": "create_table", "ref": ["DB2", "S1", "TX"], "cols": [["A", "INT"], ["B", "VARCHAR(20)"]], "comment": f"c{g.fresh()}"})
    if hazards["multi_call_statement"] and rng.random() < 0.5:
        # an object under a quoted lower-case name, with Snowflake-side metadata: it must come back like any other
        g.ops.append({"s": "s0", "k": "exec", "sql": f"CREATE TABLE \"raw_t\" (A INT, B VARCHAR(9)) COMMENT = 'q{g.fresh()}'", "st": {"t": "create_table"}})
    txn_owner: str | None = None
    vtype = "VARCHAR(20)" if hazards["multi_call_statement"] else "INT"  # any text column makes CREATE TABLE a multi-call statement
    while len(g.ops) < n + len(sids):
        sid = rng.choice(sids)
        m = g.m
        in_txn = m.sessions[sid].get("txn") is not None
        if txn_owner is not None and txn_owner != sid:
            # another session's transaction is open: this one only reads
            tabs = g.all_tables()
            if tabs:
                g.exec(sid, {"t": "select", "ref": list(rng.choice(tabs))})
            else:
                g.exec(sid, {"t": "ctxq"})
            continue
        dbs = m.sessions[sid]["txn"] if in_txn else m.dbs
        tables = [(d, s, t) for d in sorted(dbs) for s in sorted(dbs[d]) for t in sorted(dbs[d][s]["tables"])]
        kind = rng.choices(["create", "insert", "update", "delete", "txn", "create_db", "create_schema", "view", "drop", "comment", "merge", "write_pandas", "fail"],
                           [8 if len(tables) < 2 else 3, 12, 4, 3, 7, 3 if hazards["multi_call_statement"] else 1, 1, 1, 1, 2 if hazards["multi_call_statement"] else 0, 5 if hazards["multi_call_statement"] else 0, 2 if not hazards["multi_call_statement"] else 0, 2])[0]
        if kind == "fail":
            # a statement that fails (catalog or missing-object error) outside a transaction: what follows must still be committed at once
            if in_txn or txn_owner is not None or not tables:
                continue
            fq = rng.choice(tables)
            t = ".".join(fq)
            g.ops.append({"s": sid, "k": "exec", "st": {"t": "failing"}, "sql": rng.choice([
                f"CREATE TABLE {t} (A INT, B VARCHAR(7)) COMMENT = 'dup{g.fresh()}'",
                f"ALTER TABLE {t} ADD COLUMN A VARCHAR(9)",
                f"INSERT INTO {fq[0]}.{fq[1]}.NO_SUCH_TABLE VALUES (1, 2)",
                f"CREATE VIEW {fq[0]}.{fq[1]}.VBAD AS SELECT * FROM {fq[0]}.{fq[1]}.NO_SUCH_TABLE",
            ])})
            continue
        cd, cs = m.session_ctx(sid)
        if kind == "create" or (not tables and kind in ("insert", "update", "delete", "view", "drop", "comment", "merge")):
            free = [t for t in ("T1", "T2", "T3") if (cd, cs, t) not in tables] or ["T1"]
            ref: list[Any] = [None, None, rng.choice(free)]
            if "DB2" in dbs and "S1" in dbs["DB2"] and not in_txn and rng.random() < 0.5:
                ref = ["DB2", "S1", rng.choice(["T1", "T2"])]  # a table (and its Snowflake-side metadata) in a database that is not the session's current one
            if in_txn and ref[2] in dml_in_txn and not hazards["replace_in_txn_after_dml"]:
                continue  # known engine finding: DML on a table that the same transaction then replaces is resurrected by WAL replay
            st: dict[str, Any] = {"t": "create_table", "ref": ref, "cols": [["A", "INT"], ["B", vtype]], "or_replace": True}
            if hazards["multi_call_statement"] and rng.random() < 0.6:
                st["comment"] = f"c{g.fresh()}"
            g.exec(sid, st)
        elif kind == "insert":
            fq = rng.choice(tables)
            if in_txn:
                dml_in_txn.add(fq[2])
            g.exec(sid, {"t": "insert", "ref": g.qualify(sid, fq, 0.0), "rows": [g.row_for(g.columns_of(fq) if not in_txn else dbs[fq[0]][fq[1]]["tables"][fq[2]]["cols"], 0.1) for _ in range(rng.choice([1, 1, 2, 3]))]})
        elif kind == "write_pandas" and tables:
            fq = rng.choice(tables)
            rows = [[g.fresh(), g.fresh()] for _ in range(rng.choice([1, 2, 4]))]
            g.ops.append({"s": sid, "k": "write_pandas", "table": fq[2], "database": fq[0], "schema": fq[1], "cols": ["A", "B"], "rows": rows, "st": {"t": "write_pandas"}})
            dbs[fq[0]][fq[1]]["tables"][fq[2]]["rows"].extend([list(r) for r in rows])
        elif kind == "update":
            fq = rng.choice(tables)
            if in_txn:
                dml_in_txn.add(fq[2])
            bcol = dbs[fq[0]][fq[1]]["tables"][fq[2]]["cols"][1]
            newv: Any = f"u{g.fresh()}" if bcol["type"].startswith("VARCHAR") else g.fresh()
            g.exec(sid, {"t": "update", "ref": g.qualify(sid, fq, 0.0), "set": [["B", newv]], "where": ["cmp", "A", rng.choice([">", "<", "<>"]), 1000 + rng.randint(0, 12)]})
        elif kind == "delete":
            fq = rng.choice(tables)
            g.exec(sid, {"t": "delete", "ref": g.qualify(sid, fq, 0.0), "where": ["cmp", "A", rng.choice([">", "<", "="]), 1000 + rng.randint(0, 12)]})
        elif kind == "txn":
            if in_txn:
                g.exec(sid, {"t": rng.choice(["commit", "commit", "rollback"])})
                txn_owner = None
                dml_in_txn.clear()
            elif txn_owner is None:
                g.exec(sid, {"t": "begin"})
                txn_owner = sid
        elif kind == "create_db" and not in_txn and "DB2" not in m.dbs:
            g.exec(sid, {"t": "create_db", "name": "DB2"})
            g.exec(sid, {"t": "create_schema", "db": "DB2", "name": "S1"})
        elif kind == "create_schema" and not in_txn:
            g.exec(sid, {"t": "create_schema", "db": None, "name": rng.choice(["S2", "S3"]), "ine": True})
        elif kind == "view" and not any(True for d in dbs for s in dbs[d] for _ in dbs[d][s]["views"]):
            fq = rng.choice(tables)
            g.exec(sid, {"t": "create_view", "ref": [fq[0], fq[1], "V1"], "src": list(fq)})
        elif kind == "drop" and not in_txn:
            fq = rng.choice(tables)
            if not any(v["src"] == list(fq) for d in dbs for s in dbs[d] for v in dbs[d][s]["views"].values()):
                g.exec(sid, {"t": "drop_table", "ref": g.qualify(sid, fq, 0.0)})
        elif kind == "comment":
            fq = rng.choice(tables)
            g.ops.append({"s": sid, "k": "exec", "sql": f"COMMENT ON TABLE {'.'.join(fq)} IS 'k{g.fresh()}'", "st": {"t": "comment_on"}})
        elif kind == "merge":
            fq = rng.choice(tables)
            a, b = g.fresh(), g.fresh()
            existing = [r[0] for r in dbs[fq[0]][fq[1]]["tables"][fq[2]]["rows"] if r[0] is not None]
            upd = rng.choice(existing) if existing else a
            src = f"SELECT {upd} AS A, 'm{b}' AS B UNION ALL SELECT {b} AS A, 'm{b}' AS B"
            t = ".".join(fq)
            g.ops.append({"s": sid, "k": "exec", "st": {"t": "merge"},
                          "sql": f"MERGE INTO {t} USING ({src}) src ON {fq[2]}.A = src.A WHEN MATCHED THEN UPDATE SET B = src.B WHEN NOT MATCHED THEN INSERT (A, B) VALUES (src.A, src.B)"})
            # keep the generation-time model roughly in step (rows only matter for later predicates)
            rows = dbs[fq[0]][fq[1]]["tables"][fq[2]]["rows"]
            for r in rows:
                if r[0] == upd:
                    r[1] = f"m{b}"
            if upd not in existing:
                rows.append([upd, f"m{b}"])
            rows.append([b, f"m{b}"])
    return {"profile": NAME, "config": {"hazards": hazards, "sessions": sids, "tier": tier}, "ops": g.ops, "points": None}


def gen_memory(rng: Any, tier: str) -> dict[str, Any]:
    """In-memory instances side by side (optionally next to a db_path instance) in one process: they must not touch
    the disk nor see each other's objects."""
    n_mem = rng.choice([2, 2, 3])
    with_path = rng.random() < 0.5
    insts = [f"m{i}" for i in range(n_mem)] + (["p"] if with_path else [])
    ops = []
    uid = 500
    for inst in insts:
        ops.append({"i": inst, "k": "connect", "database": rng.choice(["DB1", "db1"]), "schema": "S1"})
    for _ in range(rng.randint(4, 14)):
        inst = rng.choice(insts)
        uid += 1
        k = rng.choice(["create", "insert", "insert", "select", "show", "create_db"])
        if k == "create":
            ops.append({"i": inst, "k": "exec", "sql": f"CREATE TABLE IF NOT EXISTS T_{inst.upper()} (A INT, B VARCHAR(10)) COMMENT = 'of {inst}'"})
        elif k == "insert":
            ops.append({"i": inst, "k": "exec", "sql": f"CREATE TABLE IF NOT EXISTS T_{inst.upper()} (A INT, B VARCHAR(10)) COMMENT = 'of {inst}'"})
            ops.append({"i": inst, "k": "exec", "sql": f"INSERT INTO T_{inst.upper()} VALUES ({uid}, '{inst}')"})
        elif k == "select":
            other = rng.choice(insts)
            ops.append({"i": inst, "k": "probe", "sql": f"SELECT * FROM DB1.S1.T_{other.upper()}", "other": other})
        elif k == "show":
            ops.append({"i": inst, "k": "show"})
        else:
            ops.append({"i": inst, "k": "exec", "sql": f"CREATE DATABASE IF NOT EXISTS DBX_{inst.upper()}"})
    return {"profile": NAME, "config": {"mode": "memory", "instances": insts, "tier": tier, "hazards": {}}, "ops": ops, "points": None}


def proc_memory(w: int, base: str, case: dict[str, Any]) -> None:
    from fakesnow.instance import FakeSnow

    sim = core.begin(base)
    cwd = os.path.join(base, "cwd")
    D = os.path.join(base, "dbs")
    os.makedirs(cwd)
    os.makedirs(D)
    os.chdir(cwd)
    lib = ctypes.CDLL(None)
    have_shim = hasattr(lib, "fsv_arm")
    if have_shim:
        lib.fsv_count.restype = ctypes.c_long
        lib.fsv_arm(cwd.encode(), ctypes.c_long(-1), ctypes.c_int(0))  # counts file-system calls under the process's cwd
    fs = {i: (FakeSnow(db_path=D) if i == "p" else FakeSnow()) for i in case["config"]["instances"]}
    conns: dict[str, Any] = {}
    created: dict[str, set[str]] = {i: set() for i in fs}
    bad: list[dict[str, Any]] = []
    for j, op in enumerate(case["ops"]):
        inst = op["i"]
        try:
            if op["k"] == "connect":
                conns[inst] = fs[inst].connect(database=op["database"], schema=op["schema"])
            elif inst not in conns:
                continue
            elif op["k"] == "exec":
                conns[inst].cursor().execute(op["sql"])
                if op["sql"].startswith("CREATE TABLE"):
                    created[inst].add(f"T_{inst.upper()}")
            elif op["k"] == "probe":
                other = op["other"]
                try:
                    rows = conns[inst].cursor().execute(op["sql"]).fetchall()
                    if other != inst:
                        bad.append({"check": "foreign-object-visible", "op": j, "instance": inst, "object_of": other, "rows": repr(rows)[:120]})
                    elif f"T_{inst.upper()}" in created[inst] and any(r[1] != inst for r in rows):
                        bad.append({"check": "foreign-rows-visible", "op": j, "instance": inst, "rows": repr(rows)[:120]})
                except Exception as e:  # noqa: BLE001
                    if other == inst and f"T_{inst.upper()}" in created[inst]:
                        bad.append({"check": "own-object-missing", "op": j, "instance": inst, "error": str(e)[:120]})
            elif op["k"] == "show":
                rows = conns[inst].cursor().execute("SHOW TABLES IN ACCOUNT").fetchall()
                names = {r[1] for r in rows if not str(r[1]).startswith("_fs_")}
                foreign = sorted(n for n in names if n.startswith("T_") and n != f"T_{inst.upper()}")
                if foreign:
                    bad.append({"check": "foreign-object-listed", "op": j, "instance": inst, "objects": foreign})
        except Exception as e:  # noqa: BLE001
            bad.append({"check": "statement-raises", "op": j, "instance": inst, "sql": op.get("sql"), "error": f"{type(e).__name__}: {str(e)[:160]}"})
            break
    listing_cwd = sorted(os.listdir(cwd))
    listing_d = sorted(os.listdir(D))
    want_d = set()
    if "p" in fs:
        want_d = {f for f in listing_d if f.upper().startswith(("DB1.DB", "DBX_P.DB"))}
    if listing_cwd:
        bad.append({"check": "file-in-cwd", "files": listing_cwd})
    stray = [f for f in listing_d if f not in want_d]
    if stray:
        bad.append({"check": "in-memory-instance-wrote-to-db_path", "files": stray})
    n_sys = lib.fsv_count() if have_shim else 0
    if n_sys:
        bad.append({"check": "file-system-calls-under-cwd", "count": n_sys})
    _emit(w, {"ev": "memory", "bad": bad, "ops": len(case["ops"]), "events": sim.engine_events, "shim": have_shim})
    os._exit(0)


def run_memory(case: dict[str, Any]) -> dict[str, Any]:
    base = fresh_dir(f"mem-{case.get('run_seed', 0)}")
    try:
        code, recs = in_child(proc_memory, base, case)
        rec = next(r for r in recs if r["ev"] == "memory")
        violations = []
        for b in rec["bad"][:2]:
            violations.append(v_(f"memory/{b['check']}", "in-memory instances never touch the disk nor see each other's objects", b))
        insts = case["config"]["instances"]
        return {"violations": violations, "evaluations": 1, "fingerprints": [fp([insts, [[o["i"], o["k"]] for o in case["ops"]]])], "digest": fp(rec), "steps": rec["events"], "ops": rec["ops"],
                "probes": {"memory_scenario": 1, "memory_next_to_db_path": 1 if "p" in insts else 0}, "faults": {}, "strategy": "memory", "nontrivial": True, "fingerprint": fp(insts)}
    finally:
        shutil.rmtree(base, ignore_errors=True)
        core.end()


# --------------------------------------------------------------------------- snapshot of a db_path instance


def snapshot_dbpath(sim: core.Sim, D: str, names_hint: list[str] | None = None, alt_case: int = 0, live: bool = False, by_statement: bool = False) -> dict[str, Any]:
    """Observable state of the instance inside the current `with fakesnow.patch(db_path=D)`: connect to every
    database that has a file, then catalog + rows (engine system functions) and comments + VARCHAR lengths (API)."""
    import snowflake.connector
    from fakesnow.instance import GLOBAL_DATABASE_NAME

    with sim.quiet():
        on_disk = sorted(f[:-3] for f in os.listdir(D) if f.endswith(".db"))
        # "connects to the same database": by NAME (unquoted names are case-insensitive), in a spelling that need not
        # be the writer's; a name is only connected to when a file for it exists (connect would otherwise create it)
        names = sorted({f.upper() for f in on_disk} if not names_hint else {n for n in names_hint if n.lower() in {f.lower() for f in on_disk}})
        files = names
        fs = core.find_instance()  # the FakeSnow instance behind the patch
        # the rows of fakesnow's side tables as they are BEFORE this observer connects (a live writer has its databases
        # attached already); the restart process has nothing attached yet and reads them after its connects instead
        ext_before: dict[str, Any] | None = None
        if live:
            ext_before = {}
            c0 = core.raw(fs.duck_conn).cursor()
            try:
                attached = {r[0] for r in c0.execute("select database_name from duckdb_databases() where not internal").fetchall()}
                for d in sorted(attached):
                    if d.upper() in {n.upper() for n in names}:
                        for t in ("_fs_tables_ext", "_fs_columns_ext"):
                            try:
                                ext_before[f"{d.upper()}.{t}"] = sorted(norm_rows(c0.execute(f'select * from "{d}".information_schema.{t}').fetchall()), key=sort_key)
                            except BaseException:  # noqa: BLE001, S110
                                pass
            finally:
                c0.close()
        conns = {}
        errors = {}
        via_stmt: list[str] = []
        for i, db in enumerate(names):
            try:
                if by_statement and i > 0 and conns:
                    # the other way a later process reaches a database whose file exists: by statement, from the first connection
                    next(iter(conns.values())).cursor().execute(f"CREATE DATABASE IF NOT EXISTS {db.lower() if (i + alt_case) % 2 else db}")
                    via_stmt.append(db)
                else:
                    conns[db] = snowflake.connector.connect(database=(db.lower() if (i + alt_case) % 2 else db))
            except BaseException as e:  # noqa: BLE001
                errors[db] = f"{type(e).__name__}: {str(e)[:160]}"
        cur = core.raw(fs.duck_conn).cursor()
        snap: dict[str, Any] = {"dbs": files, "attach_errors": errors, "schemas": [], "tables": {}, "views": [], "rows": {}, "comments": {}, "lengths": {}, "ext": ext_before}
        try:
            user = [d for d in files if d not in errors and d.lower() != GLOBAL_DATABASE_NAME.lower()]
            for d, s in cur.execute("select database_name, schema_name from duckdb_schemas() where not internal").fetchall():
                if d in user and s.lower() not in ("information_schema", "pg_catalog", "main"):
                    snap["schemas"].append(f"{d}.{s}")
            cols: dict[str, list[Any]] = {}
            for d, s, t, c, ty in cur.execute("select database_name, schema_name, table_name, column_name, data_type from duckdb_columns() where not internal order by database_name, schema_name, table_name, column_index").fetchall():
                cols.setdefault(f"{d}.{s}.{t}", []).append([c, ty])
            for d, s, t in cur.execute("select database_name, schema_name, table_name from duckdb_tables() where not internal").fetchall():
                if d in user and s.lower() not in ("information_schema", "pg_catalog") and not t.startswith("_fs_"):
                    snap["tables"][f"{d}.{s}.{t}"] = cols.get(f"{d}.{s}.{t}", [])
                    rs = cur.execute(f'select * from "{d}"."{s}"."{t}"').fetchall()
                    snap["rows"][f"{d}.{s}.{t}"] = sorted(norm_rows(rs), key=sort_key)
            for d, s, v in cur.execute("select database_name, schema_name, view_name from duckdb_views() where not internal").fetchall():
                if d in user and s.lower() not in ("information_schema", "pg_catalog"):
                    snap["views"].append(f"{d}.{s}.{v}")
            snap["schemas"].sort()
            snap["views"].sort()
            if not live:
                ext_after: dict[str, Any] = {}
                for d in user:
                    for t in ("_fs_tables_ext", "_fs_columns_ext"):
                        try:
                            ext_after[f"{d.upper()}.{t}"] = sorted(norm_rows(cur.execute(f'select * from "{d}".information_schema.{t}').fetchall()), key=sort_key)
                        except BaseException:  # noqa: BLE001, S110
                            pass
                snap["ext"] = ext_after
        finally:
            cur.close()
        for db in via_stmt:
            # the catalog and the rows above were read with this database reached by statement only; its comments and
            # lengths are read like the others', through a connection of its own (made now, after the catalog was looked at)
            try:
                conns[db] = snowflake.connector.connect(database=db)
            except BaseException as e:  # noqa: BLE001
                snap["attach_errors"][db] = f"{type(e).__name__}: {str(e)[:160]}"
        for db, conn in conns.items():
            try:
                c = conn.cursor()
                c.execute("SELECT table_schema, table_name, comment FROM information_schema.tables WHERE table_schema NOT IN ('information_schema', 'main') AND table_type = 'BASE TABLE'")
                for s, t, com in c.fetchall():
                    if not t.startswith("_fs_"):
                        snap["comments"][f"{db}.{s}.{t}"] = com
                c.execute("SELECT table_schema, table_name, column_name, character_maximum_length FROM information_schema.columns WHERE table_schema NOT IN ('information_schema', 'main')")
                for s, t, col, ln in c.fetchall():
                    if not t.startswith("_fs_") and f"{db}.{s}.{t}" in snap["tables"]:
                        snap["lengths"][f"{db}.{s}.{t}.{col}"] = ln
            except BaseException as e:  # noqa: BLE001
                snap["attach_errors"][db] = f"meta: {type(e).__name__}: {str(e)[:160]}"
            finally:
                try:
                    conn.close()
                except BaseException:  # noqa: BLE001, S110
                    pass
        return snap


def raw_view(cur: Any, user: list[str]) -> dict[str, Any]:
    """Catalog, rows and Snowflake-side side tables of the user databases as ONE engine connection sees them."""
    view: dict[str, Any] = {"schemas": [], "tables": {}, "views": [], "rows": {}}
    low = {u.lower() for u in user}
    for d, sc in cur.execute("select database_name, schema_name from duckdb_schemas() where not internal").fetchall():
        if d.lower() in low and sc.lower() not in ("information_schema", "pg_catalog", "main"):
            view["schemas"].append(f"{d}.{sc}")
    tabs = cur.execute("select database_name, schema_name, table_name from duckdb_tables() where not internal").fetchall()
    for d, sc, t in tabs:
        if d.lower() not in low or sc.lower() == "pg_catalog":
            continue
        if sc.lower() == "information_schema" and t not in ("_fs_tables_ext", "_fs_columns_ext"):
            continue
        cols = [r[0] for r in cur.execute(f"select column_name from duckdb_columns() where database_name = '{d}' and schema_name = '{sc}' and table_name = '{t}' order by column_index").fetchall()]
        view["tables"][f"{d}.{sc}.{t}"] = cols
        view["rows"][f"{d}.{sc}.{t}"] = sorted(norm_rows(cur.execute(f'select * from "{d}"."{sc}"."{t}"').fetchall()), key=sort_key)
    for d, sc, vw in cur.execute("select database_name, schema_name, view_name from duckdb_views() where not internal").fetchall():
        if d.lower() in low and sc.lower() not in ("information_schema", "pg_catalog"):
            view["views"].append(f"{d}.{sc}.{vw}")
    view["schemas"].sort()
    view["views"].sort()
    return view


def own_vs_committed(sim: core.Sim, world: Any, idle: list[str], user: list[str]) -> list[dict[str, Any]]:
    """Sessions without an open explicit transaction: everything they were acknowledged must be committed, i.e. what
    they see through their own engine connection equals what a fresh engine connection of the instance sees."""
    out: list[dict[str, Any]] = []
    with sim.quiet():
        fs = core.find_instance()
        cur = core.raw(fs.duck_conn).cursor()
        try:
            committed = raw_view(cur, user)
        finally:
            cur.close()
        for sid in idle:
            conn = world.conns.get(sid)
            dc = getattr(conn, "_duck_conn", None)
            if conn is None or dc is None or getattr(conn, "_is_closed", False):
                continue
            try:
                own = raw_view(core.raw(dc), user)
            except BaseException as e:  # noqa: BLE001
                out.append({"sid": sid, "error": f"{type(e).__name__}: {str(e)[:200]}"})
                continue
            comps = [c for c in ("schemas", "tables", "views", "rows") if own[c] != committed[c]]
            if comps:
                out.append({"sid": sid, "diff": explain(own, committed, comps)})
    return out


# --------------------------------------------------------------------------- the two processes


class PatchedWorld(World):
    """World whose connections come from the patched snowflake.connector.connect."""

    def __init__(self, sim: core.Sim) -> None:  # noqa: D107
        import snowflake.connector

        self.sim = sim
        self.scratch = None
        self.fs_opts = {}
        self.conns = {}
        self.cursors = {}

        class _FS:
            @staticmethod
            def connect(**kw: Any) -> Any:
                return snowflake.connector.connect(**kw)

        self.fs = _FS()  # type: ignore[assignment]


def _emit(w: int, rec: dict[str, Any]) -> None:
    os.write(w, (json.dumps(rec, default=repr) + "\n").encode())


def proc_a(w: int, D: str, case: dict[str, Any], fault: dict[str, Any], reference: bool, ref_ok: list[bool] | None = None) -> None:
    import fakesnow

    sim = core.begin(D)
    lib = ctypes.CDLL(None)
    kind = fault["kind"]
    if kind == "event":
        k, ph = fault["k"], fault["phase"]

        def on_fault(idx: int, phase: str, sql: str) -> None:
            if idx == k and phase == ph:
                os._exit(137)

        sim.fault = on_fault
    have_shim = hasattr(lib, "fsv_arm")
    if have_shim:
        lib.fsv_count.restype = ctypes.c_long
        lib.fsv_arm(D.encode(), ctypes.c_long(fault["K"] if kind in ("syscall", "ioerr") else -1), ctypes.c_int(fault["mode"] if kind == "ioerr" else fault.get("torn", 0)))
        if kind == "ioerr":
            lib.fsv_failed.restype = ctypes.c_long
    how = "clean"
    if kind == "reenter":
        # the with-block is left by an exception while the program still holds its connections; the same process then
        # enters patch() on the same directory again, goes on with the history and ends cleanly
        import gc

        at = fault["at"]
        kept: list[Any] = []
        try:
            with fakesnow.patch(db_path=D):
                world = PatchedWorld(sim)
                kept.append(world)
                for j, op in enumerate(case["ops"][:at]):
                    _emit(w, {"ev": "op_start", "i": j, "events": sim.engine_events, "sys": 0})
                    out = world.apply(op)
                    _emit(w, {"ev": "op_done", "i": j, "ok": out.get("ok"), "exc": out.get("exc"), "events": sim.engine_events, "sys": 0})
                raise BodyError()
        except BodyError:
            pass
        try:
            with fakesnow.patch(db_path=D):
                world = PatchedWorld(sim)
                seen: set[str] = set()
                for op in case["ops"][:at]:
                    if op["k"] == "connect" and op["s"] not in seen:
                        seen.add(op["s"])
                        world.apply(op)  # the sessions of the first life connect again the way they did
                    elif op_kind(op) == "create_db" and (op.get("st") or {}).get("name"):
                        world.fs.connect(database=op["st"]["name"])  # a database made by statement has to be attached again in a new life
                for j, op in enumerate(case["ops"][at:], at):
                    _emit(w, {"ev": "op_start", "i": j, "events": sim.engine_events, "sys": 0})
                    out = world.apply(op)
                    _emit(w, {"ev": "op_done", "i": j, "ok": out.get("ok"), "exc": out.get("exc"), "events": sim.engine_events, "sys": 0})
            how = "reenter"
        except BaseException as e:  # noqa: BLE001
            how = f"reenter-raised:{type(e).__name__}: {str(e)[:120]}"
        kept.clear()
        gc.collect()  # the first life's connections are let go only now
        _emit(w, {"ev": "end", "how": how, "events": sim.engine_events, "sys": 0, "shim": have_shim, "failed_calls": 0})
        os._exit(0)
    try:
        with fakesnow.patch(db_path=D):
            world = PatchedWorld(sim)
            open_txn: dict[str, bool] = {}
            for j, op in enumerate(case["ops"]):
                if kind in ("clean", "exception") and fault["at"] == j:
                    if kind == "exception":
                        raise BodyError()
                    break
                _emit(w, {"ev": "op_start", "i": j, "events": sim.engine_events, "sys": lib.fsv_count() if have_shim else 0})
                out = world.apply(op)
                if kind == "ioerr" and ref_ok is not None and bool(out.get("ok")) != ref_ok[j]:
                    # the injected disk error surfaced in this statement: it was NOT acknowledged; the program gives up here
                    _emit(w, {"ev": "diverged", "i": j, "exc": out.get("exc"), "msg": str(out.get("msg"))[:200], "failed_calls": lib.fsv_failed()})
                    if fault.get("exit") == "exception":
                        raise BodyError()
                    break
                _emit(w, {"ev": "op_done", "i": j, "ok": out.get("ok"), "exc": out.get("exc"), "events": sim.engine_events, "sys": lib.fsv_count() if have_shim else 0})
                if reference:
                    snap = snapshot_dbpath(sim, D, live=True)
                    _emit(w, {"ev": "snap", "i": j, "snap": snap})
                    t = op_kind(op)
                    open_txn[op["s"]] = True if t == "begin" else False if t in ("commit", "rollback", "connect", "close") else open_txn.get(op["s"], False)
                    idle = [sid for sid in case["config"]["sessions"] if not open_txn.get(sid, False)]
                    for dv in own_vs_committed(sim, world, idle, [d for d in snap["dbs"] if d not in snap["attach_errors"]]):
                        _emit(w, {"ev": "own_diff", "i": j, **dv})
    except BodyError:
        how = "exception"
    except BaseException as e:  # noqa: BLE001
        if kind != "ioerr":
            raise
        how = f"exit-raised:{type(e).__name__}"  # leaving patch() on a failing disk may raise; the process ends all the same
    _emit(w, {"ev": "end", "how": how, "events": sim.engine_events, "sys": lib.fsv_count() if have_shim else 0, "shim": have_shim,
              "failed_calls": lib.fsv_failed() if (have_shim and kind == "ioerr") else 0})
    os._exit(0)


def proc_b(w: int, D: str, names: list[str] | None = None, by_statement: bool = False) -> None:
    import fakesnow

    sim = core.begin(D)
    try:
        with sim.quiet(), fakesnow.patch(db_path=D):
            snap = snapshot_dbpath(sim, D, names, alt_case=1, by_statement=by_statement)
        _emit(w, {"ev": "snap", "snap": snap, "listing": sorted(os.listdir(D))})
    except BaseException as e:  # noqa: BLE001
        _emit(w, {"ev": "restart_error", "error": f"{type(e).__name__}: {str(e)[:300]}"})
    os._exit(0)


def in_child(fn: Any, *args: Any, timeout: float = 90.0) -> tuple[int, list[dict[str, Any]]]:
    """Run fn(write_fd, *args) in a forked child; collect its JSON lines. Returns (exit status, records)."""
    r, w = os.pipe()
    pid = os.fork()
    if pid == 0:
        try:
            os.close(r)
            signal.signal(signal.SIGINT, signal.SIG_DFL)
            fn(w, *args)
        except BaseException as e:  # noqa: BLE001
            try:
                _emit(w, {"ev": "child_error", "error": f"{type(e).__name__}: {str(e)[:400]}"})
            except BaseException:  # noqa: BLE001, S110
                pass
        finally:
            os._exit(3)
    os.close(w)
    buf = b""
    t_end = time.time() + timeout
    timed_out = False
    while True:
        left = t_end - time.time()
        if left <= 0:
            timed_out = True
            break
        ready, _, _ = select.select([r], [], [], min(left, 5.0))
        if ready:
            chunk = os.read(r, 1 << 16)
            if not chunk:
                break
            buf += chunk
    os.close(r)
    if timed_out:
        try:
            os.kill(pid, signal.SIGKILL)
        except ProcessLookupError:
            pass
        os.waitpid(pid, 0)
        raise core.HarnessError("child process timed out (fork of a threaded worker can hang; reported as harness error, never as a verdict)")
    _, st = os.waitpid(pid, 0)
    code = os.WEXITSTATUS(st) if os.WIFEXITED(st) else -os.WTERMSIG(st)
    recs = [json.loads(ln) for ln in buf.decode().splitlines() if ln.strip()]
    for rec in recs:
        if rec.get("ev") == "child_error":
            raise core.HarnessError(f"child failed: {rec['error']}")
    return code, recs


# --------------------------------------------------------------------------- oracle


COMPONENTS = ["dbs", "schemas", "tables", "views", "rows", "comments", "lengths", "ext"]


def _comp(snap: dict[str, Any], c: str) -> Any:
    if c == "ext":
        return {k: v for k, v in (snap.get("ext") or {}).items() if v}  # a database without side-table rows = no entry
    return snap.get(c)


def diff(a: dict[str, Any], b: dict[str, Any], ignore: tuple[str, ...] = ()) -> list[str]:
    return [c for c in COMPONENTS if c not in ignore and _comp(a, c) != _comp(b, c)]


def op_kind(op: dict[str, Any]) -> str:
    if op["k"] != "exec":
        return op["k"]
    return (op.get("st") or {}).get("t", "exec")


def _replaced_after_dml(case: dict[str, Any], upto: int) -> bool:
    """Does the history up to op index `upto` contain a transaction that changed rows of a table and then replaced it?"""
    touched: set[str] | None = None
    for op in case["ops"][: upto + 1]:
        t = op_kind(op)
        sql = str(op.get("sql", "")).upper()
        if t == "begin":
            touched = set()
        elif t in ("commit", "rollback"):
            touched = None
        elif touched is not None:
            if t in ("insert", "update", "delete"):
                touched.add(sql.replace("INSERT INTO ", "").replace("DELETE FROM ", "").replace("UPDATE ", "").split()[0].split(".")[-1])
            elif t == "create_table" and "OR REPLACE" in sql:
                name = sql.split("TABLE", 1)[1].split("(")[0].strip().split(".")[-1]
                if name in touched:
                    return True
    return False


def judge(case: dict[str, Any], fault: dict[str, Any], recs_a: list[dict[str, Any]], snap_b: dict[str, Any], snaps: list[dict[str, Any]], empty: dict[str, Any]) -> dict[str, Any] | None:
    v = _judge(case, fault, recs_a, snap_b, snaps, empty)
    if v is not None and not v["signature"].startswith("restart-fails"):
        started = [r["i"] for r in recs_a if r["ev"] == "op_start"]
        if started and _replaced_after_dml(case, started[-1]):
            v["signature"] = "engine-wal-replay/replaced-in-txn-after-dml/" + v["signature"]
    return v


def _judge(case: dict[str, Any], fault: dict[str, Any], recs_a: list[dict[str, Any]], snap_b: dict[str, Any], snaps: list[dict[str, Any]], empty: dict[str, Any]) -> dict[str, Any] | None:
    started = [r["i"] for r in recs_a if r["ev"] == "op_start"]
    done = [r["i"] for r in recs_a if r["ev"] == "op_done"]
    last_done = max(done) if done else -1
    inflight = started[-1] if started and (not done or started[-1] > last_done) else None
    before = snaps[last_done] if last_done >= 0 else empty
    if fault["kind"] == "reenter":
        end = next((r for r in recs_a if r["ev"] == "end"), None)
        if end is None or end.get("how") != "reenter":
            return v_("reenter/second-patch-fails", "patch() on the same db_path can be entered again in the same process after the block was left by an exception", {"fault": fault, "end": end})
        if snap_b.get("attach_errors"):
            return v_("restart-fails/after-reenter", "a database file could not be re-opened", {"fault": fault, "errors": snap_b["attach_errors"]})
        d = diff(snap_b, snaps[-1])
        if d:
            return v_("after-reenter/state-differs", "what both lives of the process committed is there afterwards", {"fault": fault, "diff": explain(snap_b, snaps[-1], d)})
        return None
    if fault["kind"] == "ioerr":
        # a disk error (EIO once / disk full from here on): every statement acknowledged before the program gave up must
        # survive; the statement in which the error surfaced (it raised, or the process died in it) may be there or not
        mode = "eio" if fault["mode"] == 2 else "enospc"
        div = next((r for r in recs_a if r["ev"] == "diverged"), None)
        stop = div["i"] if div is not None else inflight  # inflight: the engine aborted the process inside this statement
        if snap_b.get("attach_errors"):
            what = op_kind(case["ops"][stop]) if stop is not None else "idle"
            if what in ("connect", "create_db"):
                what = "database-file-creation"
            return v_(f"disk-error/restart-fails/{what}/{mode}", "a database file could not be re-opened after a disk error", {"fault": fault, "errors": snap_b["attach_errors"], "surfaced": div})
        if stop is None:
            d = diff(snap_b, before)
            if d:
                return v_(f"disk-error/acknowledged-lost/{mode}", "every statement was acknowledged although a disk error was injected, yet the restart does not show their committed state",
                          {"fault": fault, "last_acknowledged_op": last_done, "diff": explain(snap_b, before, d)})
            return None
        op = case["ops"][stop]
        prev = snaps[stop - 1] if stop > 0 else empty
        after = snaps[stop]
        ignore = ("dbs", "schemas") if op["k"] == "connect" else ()
        d0, d1 = diff(snap_b, prev, ignore), diff(snap_b, after, ignore)
        if d0 and d1:
            return v_(f"disk-error/torn/{op_kind(op)}/{mode}/{'+'.join(d1)}", "after a disk error the restart shows neither the state before nor after the statement in which it surfaced",
                      {"fault": fault, "surfaced_in": {k: op.get(k) for k in ("s", "k", "sql")}, "error": div, "vs_before": explain(snap_b, prev, d0), "vs_after": explain(snap_b, after, d1)})
        return None
    if snap_b.get("attach_errors"):
        what = op_kind(case["ops"][inflight]) if inflight is not None else "idle"
        if what in ("connect", "create_db"):
            what = "database-file-creation"
        return v_(f"restart-fails/{what}", "a database file could not be re-opened after the fault", {"fault": fault, "errors": snap_b["attach_errors"]})
    if inflight is None:
        d = diff(snap_b, before)
        if d:
            return v_(f"after-{fault['kind']}/state-differs", "the restart does not show exactly the committed state",
                      {"fault": fault, "last_acknowledged_op": last_done, "diff": explain(snap_b, before, d)})
        return None
    op = case["ops"][inflight]
    after = snaps[inflight] if inflight < len(snaps) else None
    ignore = ("dbs", "schemas") if op["k"] == "connect" else ()
    d0 = diff(snap_b, before, ignore)
    if not d0:
        return None
    if after is not None:
        d1 = diff(snap_b, after, ignore)
        if not d1:
            return None
    else:
        d1 = ["?"]
    return v_(f"torn/{op_kind(op)}/{'+'.join(d1)}", "a statement interrupted by the kill is neither fully there nor absent after restart",
              {"fault": fault, "inflight_op": {k: op.get(k) for k in ("s", "k", "sql", "database", "schema")},
               "vs_before": explain(snap_b, before, d0), "vs_after": explain(snap_b, after, d1) if after is not None else None})


def explain(got: dict[str, Any], want: dict[str, Any], comps: list[str]) -> dict[str, Any]:
    out = {}
    for c in comps[:3]:
        g, w = got.get(c), want.get(c)
        if isinstance(g, dict) and isinstance(w, dict):
            out[c] = {k: {"restart": g.get(k), "expected": w.get(k)} for k in sorted(set(g) | set(w)) if g.get(k) != w.get(k)}
        else:
            out[c] = {"restart": g, "expected": w}
    return out


def v_(signature: str, clause: str, detail: Any) -> dict[str, Any]:
    return {"property": "C18", "signature": signature, "clause": clause, "detail": detail}


# --------------------------------------------------------------------------- one history, all its crash points


def fresh_dir(tag: str) -> str:
    d = scratch_dir(tag)
    shutil.rmtree(d, ignore_errors=True)
    os.makedirs(d)
    return d


def run(case: dict[str, Any]) -> dict[str, Any]:
    if case["config"].get("mode") == "memory":
        return run_memory(case)
    tier = case["config"].get("tier", "quick")
    probes: dict[str, int] = {}
    faults: dict[str, int] = {}
    fingerprints: list[str] = []
    hist_fp = fp([[o["s"], op_kind(o)] for o in case["ops"]])
    base = fresh_dir(f"crash-{case.get('run_seed', 0)}")
    pairs = 0
    steps = 0
    violations: list[dict[str, Any]] = []
    try:
        # reference executions: R1 with live snapshots after every op, R0 plain (counts events / syscalls as fault runs see them)
        D = os.path.join(base, "ref")
        os.makedirs(D)
        code, recs = in_child(proc_a, D, case, {"kind": "none"}, True)
        snaps = [r["snap"] for r in recs if r["ev"] == "snap"]
        oks = {r["i"]: r for r in recs if r["ev"] == "op_done"}
        if code != 0 or len(snaps) != len(case["ops"]):
            raise core.HarnessError(f"reference run did not complete: exit {code}, {len(snaps)}/{len(case['ops'])} snapshots")
        ref_ok = [bool(oks[i].get("ok")) for i in range(len(case["ops"]))]  # outcome of every op without a fault (some are meant to fail)
        all_names = sorted({d for sn in snaps for d in sn["dbs"]})
        shutil.rmtree(D, ignore_errors=True)
        probes["own_view_checks"] = len(snaps)
        # side-table rows are committed state too: a row may only name a table that is, or once was, committed
        # (rows of dropped tables are the known stale-metadata finding of C09, rows of a table that never got committed are a leak)
        ever: set[str] = set()
        for j, sn in enumerate(snaps):
            ever.update(sn.get("tables") or {})
            leaked = sorted({f"{r[0]}.{r[1]}.{r[2]}" for k2, rows in (sn.get("ext") or {}).items() for r in rows if len(r) > 2} - ever)
            if leaked and not violations:
                op = case["ops"][j]
                violations.append(v_(f"uncommitted-metadata-committed/{op_kind(op)}", "fakesnow's side tables hold committed rows for a table that was never committed (they would survive a kill or ROLLBACK)",
                                     {"after_op": j, "op": {k: op.get(k) for k in ("s", "k", "sql")}, "tables": leaked}))
        for r in recs:
            if r["ev"] == "own_diff":
                op = case["ops"][r["i"]]
                violations.append(v_(f"acknowledged-not-committed/{op_kind(op)}" if "diff" in r else f"own-view-raises/{op_kind(op)}",
                                     "a session with no open transaction sees state that is not committed (it would be lost by any exit)",
                                     {"after_op": r["i"], "session": r["sid"], "op": {k: op.get(k) for k in ("s", "k", "sql")}, "diff": r.get("diff"), "error": r.get("error")}))
                break
        D = os.path.join(base, "cnt")
        os.makedirs(D)
        code, recs0 = in_child(proc_a, D, case, {"kind": "none"}, False)
        end0 = next(r for r in recs0 if r["ev"] == "end")
        E, Y, have_shim = end0["events"], end0["sys"], end0.get("shim", False)
        # an empty instance on an empty directory
        shutil.rmtree(D, ignore_errors=True)
        os.makedirs(D)
        _, rb = in_child(proc_b, D)
        empty = rb[0]["snap"]
        shutil.rmtree(D, ignore_errors=True)
        # enumerate the crash points
        points = case.get("points")
        if points is None:
            points = []
            n = len(case["ops"])
            for j in range(1, n + 1):
                points.append({"kind": "clean", "at": j})
                points.append({"kind": "exception", "at": j})
            bal: dict[str, bool] = {}
            splits = []
            for j, op in enumerate(case["ops"]):
                t = op_kind(op)
                bal[op["s"]] = True if t == "begin" else False if t in ("commit", "rollback", "connect", "close") else bal.get(op["s"], False)
                if j + 1 < n and not any(bal.values()) and j + 1 >= len(case["config"]["sessions"]):
                    splits.append(j + 1)
            for j in splits[:: max(1, len(splits) // 3)][:3]:
                points.append({"kind": "reenter", "at": j})
            for k in range(1, E + 1):
                points.append({"kind": "event", "k": k, "phase": "before"})
                points.append({"kind": "event", "k": k, "phase": "after"})
            if have_shim:
                for K in range(1, Y + 1):
                    points.append({"kind": "syscall", "K": K, "torn": 0})
                    points.append({"kind": "syscall", "K": K, "torn": 1})
                    points.append({"kind": "ioerr", "K": K, "mode": 2, "exit": "clean" if K % 2 else "exception"})
                    points.append({"kind": "ioerr", "K": K, "mode": 3, "exit": "exception" if K % 2 else "clean"})
            cap = CAP_POINTS.get(tier, 48)
            if len(points) > cap:
                step = len(points) / cap
                points = [points[int(i * step)] for i in range(cap)]
        probes["points_enumerated"] = len(points)
        probes["history_engine_events"] = E
        probes["history_syscalls"] = Y
        for pi, fault in enumerate(points):
            D = os.path.join(base, f"p{pi}")
            os.makedirs(D)
            code, ra = in_child(proc_a, D, case, fault, False, ref_ok)
            _, rb = in_child(proc_b, D, all_names, pi % 2 == 1)  # every other restart reaches the further databases by statement
            pairs += 1
            if pi % 2 == 1 and len(all_names) > 1:
                probes["restart_reaches_database_by_statement"] = probes.get("restart_reaches_database_by_statement", 0) + 1
            shutil.rmtree(D, ignore_errors=True)
            started = [r["i"] for r in ra if r["ev"] == "op_start"]
            done = [r["i"] for r in ra if r["ev"] == "op_done"]
            steps += max([r.get("events", 0) for r in ra] or [0])
            fired = (code == 137) if fault["kind"] in ("event", "syscall") else any(r["ev"] == "end" for r in ra)
            if fault["kind"] == "ioerr":
                fired = any(r.get("failed_calls", 0) > 0 for r in ra)
                if not any(r["ev"] == "end" for r in ra):
                    fired = True
                    probes["process_died_on_disk_error"] = probes.get("process_died_on_disk_error", 0) + 1
                elif any(r["ev"] == "diverged" for r in ra):
                    probes["disk_error_surfaced_in_statement"] = probes.get("disk_error_surfaced_in_statement", 0) + 1
                elif fired:
                    probes["disk_error_absorbed"] = probes.get("disk_error_absorbed", 0) + 1
            name = {"clean": "clean_exit", "exception": "body_exception", "reenter": "exception_then_second_patch"}.get(fault["kind"]) or (
                f"kill_{fault['phase']}_event" if fault["kind"] == "event" else ("disk_eio_once" if fault.get("mode") == 2 else "disk_full") if fault["kind"] == "ioerr" else ("torn_write" if fault.get("torn") else "kill_at_syscall"))
            if fired:
                faults[name] = faults.get(name, 0) + 1
                probes[name] = probes.get(name, 0) + 1
            inflight = bool(started and (not done or started[-1] > max(done)))
            if inflight:
                probes["inflight_statement"] = probes.get("inflight_statement", 0) + 1
            # was a transaction open at the fault? (generation-time knowledge: count BEGINs vs ends among acknowledged ops)
            bal = 0
            for i in done:
                t = op_kind(case["ops"][i])
                bal = 1 if t == "begin" else 0 if t in ("commit", "rollback") else bal
            if bal:
                probes["open_txn_at_fault"] = probes.get("open_txn_at_fault", 0) + 1
            if fired and (done or inflight):
                fingerprints.append(fp([hist_fp, name, op_kind(case["ops"][started[-1]]) if inflight else "-", pi]))
            if rb and rb[0].get("ev") == "restart_error":
                violation = v_("restart-fails/patch", "patch()+connect on the same db_path failed after the fault", {"fault": fault, "error": rb[0]["error"]})
            else:
                snap_b = rb[0]["snap"]
                violation = judge(case, fault, ra, snap_b, snaps, empty)
                if violation is None:
                    stray = [f for f in rb[0]["listing"] if not (f.endswith(".db") or f.endswith(".db.wal") or f.endswith(".wal"))]
                    dbfiles = [f.lower() for f in rb[0]["listing"] if f.endswith(".db")]
                    if stray:
                        violation = v_("stray-file", "unexpected file in the db_path directory", {"fault": fault, "files": stray})
                    elif len(dbfiles) != len(set(dbfiles)):
                        violation = v_("duplicate-database-file", "one database has two files differing only in letter case", {"fault": fault, "files": rb[0]["listing"]})
            if violation is not None and not any(v["signature"] == violation["signature"] for v in violations):
                # crash points are independent experiments: keep enumerating, report each distinct signature once
                violation["case_update"] = {"points": [fault]}
                violation["detail"]["point_index"] = pi
                violation["detail"]["failing_ops_in_reference"] = [i for i, r in oks.items() if not r.get("ok")]
                violations.append(violation)
        return {
            "violations": violations,
            "evaluations": pairs,
            "fingerprints": fingerprints,
            "digest": fp([snaps, E, Y]),
            "steps": steps,
            "ops": len(case["ops"]) * max(pairs, 1),
            "probes": probes,
            "faults": faults,
            "strategy": "enumerate",
            "nontrivial": bool(fingerprints),
            "fingerprint": hist_fp,
            "state_hash": fp(snaps[-1]) if snaps else None,
        }
    finally:
        shutil.rmtree(base, ignore_errors=True)
        core.end()


def shrink_more(case: dict[str, Any], still: Any, t_end: float) -> dict[str, Any]:
    """After the op list is minimal, pin the single failing crash point."""
    return case
