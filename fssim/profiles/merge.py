"""Profile `merge` (C12): MERGE leaves the target as Snowflake's MERGE would, with true counts.

Besides the data-shape workload (several target rows per key, NULL keys, empty tables, clause lists with
conditions on target and/or source columns, aliases, subquery sources, qualified names, keyword case) MERGE is
fakesnow's longest multi-call statement, so the profile injects the faults only a simulator reaches: a later
sub-statement failing naturally (NOT NULL violation in the INSERT clause after an UPDATE clause ran), MERGE
inside BEGIN..ROLLBACK, a bystander session's DML between merges, and checks that no helper object stays visible.
"""

from __future__ import annotations

from typing import Any

from .. import core
from ..runner import fp
from ..world import World, exc_record, norm_rows, sort_key

NAME = "merge"
PROPERTIES = ["C12"]
DB, SC = "DB1", "S1"

SPEC = {
    "runs": {"quick": 2000, "thorough": 80000},
    "wall": {"quick": 600, "thorough": 7200},
    "chunk": 10,
    "level": "exploration",
    "technique": "deterministic simulation: seeded MERGE histories (1-3 merges, bystander DML, transactions, naturally failing sub-statements) checked against a direct implementation of Snowflake's MERGE rules, full-snapshot effect and helper-object visibility",
    "level_text": (
        "Seeded search over target/source contents (several target rows per key, NULL keys, empty tables, no/all matches), clause lists "
        "(UPDATE/DELETE/INSERT with and without conditions on target and/or source columns), source forms (table, aliased table, subquery), "
        "qualification and keyword case; fault dimension: a sub-statement that fails after an earlier clause already ran, MERGE inside "
        "BEGIN..ROLLBACK/COMMIT, another session's DML between merges. After every MERGE: target multiset = reference MERGE, status counts = "
        "rows actually affected under the documented names, source and bystanders untouched, on failure the target equals the pre-state, "
        "afterwards no helper object resolves or is listed. Sampling, not proof."
    ),
    "level_note": "Trusted: the reference MERGE (per joined pair the first applicable clause; unmatched source rows inserted by the first applicable NOT MATCHED clause; NULL keys never match); only deterministic merges are generated (source keys unique).",
    "rule": (
        "one evaluation = one seeded history with 1-3 MERGE statements; non-trivial = a MERGE with >=2 clauses or a condition ran on a "
        "non-empty target and source with at least one matched and one unmatched source row; distinct = hash of (clause shapes, source form, data shape class, fault kind)"
    ),
    "bounds": "target <=10 rows, source <=6 rows, 1-3 clauses per MERGE, 1-3 merges per run, 1-2 sessions",
    "components_real": ["fakesnow/* incl. transforms_merge", "sqlglot", "duckdb engine (in-memory)"],
    "components_stubbed": ["caller threads (statement-level order)"],
    "assumptions": ["statement-level atomicity here; torn MERGE under concurrency / kills is covered by C19 / C18"],
    "mandatory_probes": {"any": ["merge_ok", "cond_on_target", "cond_on_source", "dup_target_keys", "null_key", "subquery_source", "merge_in_rolled_back_txn", "empty_target", "three_clauses", "compound_condition", "failing_merge", "failing_merge_in_txn"]},
}

HAZARDS = ["target_cond_dup_keys", "partial_failure", "helper_visible", "decimal_counts", "target_alias", "null_counts"]


# --------------------------------------------------------------------------- reference MERGE


def ref_merge(target: list[list[Any]], source: list[list[Any]], clauses: list[dict[str, Any]]) -> tuple[list[list[Any]], dict[str, int]]:
    """target rows [K, V, W], source rows [K, V, FLAG]."""
    counts = {"inserted": 0, "updated": 0, "deleted": 0}
    out: list[list[Any]] = []

    def cond_ok(c: dict[str, Any] | None, t: list[Any] | None, s: list[Any]) -> bool:
        # SQL three-valued logic collapsed to "is TRUE" is not compositional, so evaluate to True/False/None first
        return cond3(c, t, s) is True

    def cond3(c: dict[str, Any] | None, t: list[Any] | None, s: list[Any]) -> bool | None:
        if c is None:
            return True
        if "or" in c or "and" in c:
            vals = [cond3(x, t, s) for x in c.get("or") or c["and"]]
            if "or" in c:
                return True if any(v is True for v in vals) else None if any(v is None for v in vals) else False
            return False if any(v is False for v in vals) else None if any(v is None for v in vals) else True
        if c["on"] == "source":
            v = s[2]
        else:
            v = t[2] if t is not None else None
        if v is None:
            return None
        return {"=": v == c["val"], ">": v > c["val"], "<": v < c["val"]}[c["op"]]

    matched_source: set[int] = set()
    for t in target:
        row: list[Any] | None = list(t)
        if t[0] is not None:
            for si, s in enumerate(source):
                if s[0] is not None and s[0] == t[0]:
                    matched_source.add(si)
                    for c in clauses:
                        if c["kind"] in ("update", "delete") and cond_ok(c.get("cond"), t, s):
                            if c["kind"] == "delete":
                                row = None
                                counts["deleted"] += 1
                            else:
                                newv = (None if t[1] is None or s[1] is None else t[1] + s[1]) if c.get("set_sum") else s[1]
                                row = [t[0], newv, s[2] if c.get("set_w") else t[2]]
                                counts["updated"] += 1
                            break
                    break
        if row is not None:
            out.append(row)
    for si, s in enumerate(source):
        if si in matched_source:
            continue
        for c in clauses:
            if c["kind"] == "insert" and cond_ok(c.get("cond"), None, s):
                out.append([s[0], s[1], s[2] if c.get("ins_w") else None])
                counts["inserted"] += 1
                break
    return out, counts


# --------------------------------------------------------------------------- generation


def _kw(rng: Any, text: str, lower_ok: bool) -> str:
    r = rng.random()
    if lower_ok and r < 0.3:
        return text.lower()
    return text


def render_merge(rng: Any, m: dict[str, Any], hz: dict[str, bool]) -> str:
    lo = True
    tgt = f"{DB}.{SC}.{m['target']}" if m["qualified"] else m["target"]
    talias = m["target"]
    sq = f"{DB}.{SC}.{m['source']}" if m.get("src_qualified") else m["source"]
    if m["source_form"] == "table":
        src, s = sq, m["source"]
    elif m["source_form"] == "alias":
        src, s = f"{sq} AS src", "src"
    else:
        src, s = f"(SELECT K, V, FLAG FROM {sq}) src", "src"
    if hz["target_alias"] and m.get("target_alias"):
        tgt, talias = f"{tgt} tgt", "tgt"
    parts = [f"{_kw(rng, 'MERGE INTO', lo)} {tgt} {_kw(rng, 'USING', lo)} {src} {_kw(rng, 'ON', lo)} {talias}.K = {s}.K"]
    for c in m["clauses"]:
        cond = ""
        if c.get("cond"):
            def rc(x: dict[str, Any]) -> str:
                if "or" in x:
                    return "(" + " OR ".join(rc(y) for y in x["or"]) + ")"
                if "and" in x:
                    return "(" + " AND ".join(rc(y) for y in x["and"]) + ")"
                return f"{s + '.FLAG' if x['on'] == 'source' else talias + '.W'} {x['op']} {x['val']}"

            cond = f" AND {rc(c['cond'])}"
        if c["kind"] == "update":
            # set_sum: the new value mixes the target's old value with the source's column of the same name
            sets = (f"V = {talias}.V + {s}.V" if c.get("set_sum") else f"V = {s}.V") + (f", W = {s}.FLAG" if c.get("set_w") else "")
            parts.append(f"{_kw(rng, 'WHEN MATCHED', lo)}{cond} {_kw(rng, 'THEN UPDATE SET', lo)} {sets}")
        elif c["kind"] == "delete":
            parts.append(f"{_kw(rng, 'WHEN MATCHED', lo)}{cond} {_kw(rng, 'THEN', lo)} {_kw(rng, 'DELETE', lo)}")
        else:
            if c.get("ins_w"):
                parts.append(f"{_kw(rng, 'WHEN NOT MATCHED', lo)}{cond} {_kw(rng, 'THEN INSERT', lo)} (K, V, W) {_kw(rng, 'VALUES', lo)} ({s}.K, {s}.V, {s}.FLAG)")
            else:
                parts.append(f"{_kw(rng, 'WHEN NOT MATCHED', lo)}{cond} {_kw(rng, 'THEN INSERT', lo)} (K, V) {_kw(rng, 'VALUES', lo)} ({s}.K, {s}.V)")
    return " ".join(parts)


def gen(rng: Any, prop: str, tier: str) -> dict[str, Any]:
    hz = {h: rng.random() < 0.07 for h in HAZARDS}
    uid = [100]

    def fresh() -> int:
        uid[0] += 1
        return uid[0]

    keys = list(range(1, 9))
    # target
    shape = rng.choice(["empty", "unique", "dups", "dups"])
    trows: list[list[Any]] = []
    if shape != "empty":
        for _ in range(rng.randint(1, 10)):
            k: Any = rng.choice(keys[:5])
            if shape == "unique" and any(r[0] == k for r in trows):
                continue
            if rng.random() < 0.12:
                k = None
            trows.append([k, fresh(), rng.choice([0, 1, 2, 5])])
    not_null_w = hz["partial_failure"]
    two_sessions = rng.random() < 0.4
    ops: list[dict[str, Any]] = [{"s": "s0", "k": "connect", "database": DB, "schema": SC}]
    if two_sessions:
        ops.append({"s": "s1", "k": "connect", "database": DB, "schema": SC})
    ctxless = rng.random() < 0.2
    if ctxless:
        ops.append({"s": "sq", "k": "connect", "database": rng.choice([None, DB]), "schema": None})
    ops.append({"s": "s0", "k": "exec", "sql": f"CREATE TABLE TGT (K INT, V INT, W INT{' NOT NULL' if not_null_w else ''})", "tag": "setup"})
    ops.append({"s": "s0", "k": "exec", "sql": "CREATE TABLE BYS (K INT, V INT, W INT)", "tag": "setup"})
    if trows:
        vals = ", ".join(f"({'NULL' if r[0] is None else r[0]}, {r[1]}, {r[2]})" for r in trows)
        ops.append({"s": "s0", "k": "exec", "sql": f"INSERT INTO TGT VALUES {vals}", "tag": "setup", "tgt_rows": trows})
    n_merges = rng.choice([1, 1, 2, 3])
    for mi in range(n_merges):
        sname = f"{rng.choice(['SRC', 'SRC', 'USRC'])}{mi}"  # a source whose name sorts before / after the target's
        srows: list[list[Any]] = []
        for k2 in rng.sample(keys, rng.randint(0, 6)):
            srows.append([k2, fresh(), rng.choice([0, 1, 1, 2])])
        if srows and rng.random() < 0.15:
            srows.append([None, fresh(), 1])
        if not_null_w and srows and rng.random() < 0.7:
            srows[-1][2] = None  # a NULL FLAG: inserting it into W NOT NULL fails after earlier clauses ran
        ops.append({"s": "s0", "k": "exec", "sql": f"CREATE TABLE {sname} (K INT, V INT, FLAG INT)", "tag": "setup"})
        if srows:
            vals = ", ".join(f"({'NULL' if r[0] is None else r[0]}, {r[1]}, {'NULL' if r[2] is None else r[2]})" for r in srows)
            ops.append({"s": "s0", "k": "exec", "sql": f"INSERT INTO {sname} VALUES {vals}", "tag": "setup"})
        # clauses: conditional ones first, at most one unconditional per side, kept in a sensible order
        clauses: list[dict[str, Any]] = []
        n_cl = rng.choice([1, 2, 2, 3])
        sides = [rng.choice(["update", "delete", "insert"]) for _ in range(n_cl)]
        seen_uncond = {"matched": False, "notmatched": False}
        for kind in sides:
            side = "notmatched" if kind == "insert" else "matched"
            if seen_uncond[side]:
                continue
            cond = None
            if rng.random() < 0.5:
                on = "source" if (kind == "insert" or rng.random() < 0.5) else "target"
                def simple(on2: str) -> dict[str, Any]:
                    if on2 == "target" and not hz["target_cond_dup_keys"] and shape == "dups":
                        on2 = "source"
                    return {"on": on2, "op": rng.choice(["=", ">", "<"]), "val": rng.choice([0, 1, 2])}

                cond = simple(on)
                if rng.random() < 0.35:
                    other = simple("source" if (kind == "insert" or rng.random() < 0.6) else "target")
                    cond = {rng.choice(["or", "or", "and"]): [cond, other]}
            else:
                seen_uncond[side] = True
            c: dict[str, Any] = {"kind": kind, "cond": cond}
            if kind == "update":
                c["set_w"] = rng.random() < 0.3 and not not_null_w
                c["set_sum"] = rng.random() < 0.25
            if kind == "insert":
                c["ins_w"] = rng.random() < 0.6 or not_null_w
            clauses.append(c)
        m = {"target": "TGT", "source": sname, "clauses": clauses, "qualified": rng.random() < 0.3, "source_form": rng.choice(["table", "alias", "subquery"]),
             "target_alias": rng.random() < 0.5}
        in_txn = rng.random() < 0.25 and not not_null_w  # a constraint failure aborts the user's transaction: outside the property
        end = rng.choice(["ROLLBACK", "COMMIT"])
        if in_txn:
            ops.append({"s": "s0", "k": "exec", "sql": "BEGIN", "tag": "begin"})
        by = "s0"
        if ctxless and not in_txn and rng.random() < 0.5:
            # fully qualified names need no session context: the MERGE is issued by a session without current database and schema
            m["qualified"] = m["src_qualified"] = True
            by = "sq"
        ops.append({"s": by, "k": "exec", "sql": render_merge(rng, m, hz), "tag": "merge", "merge": m, "source_rows": srows})
        if rng.random() < 0.25:
            # a MERGE that fails because of what it refers to: it must change nothing, also inside the open transaction
            bad = rng.choice(["MERGE INTO TGT USING NO_SUCH_SRC s ON TGT.K = s.K WHEN MATCHED THEN DELETE",
                              f"MERGE INTO TGT USING {sname} s ON TGT.K = s.NOPE WHEN MATCHED THEN UPDATE SET V = s.V",
                              f"MERGE INTO NO_SUCH_TGT USING {sname} s ON NO_SUCH_TGT.K = s.K WHEN NOT MATCHED THEN INSERT (K, V) VALUES (s.K, s.V)"])
            ops.append({"s": "s0", "k": "exec", "sql": bad, "tag": "merge_fail"})
        if hz["helper_visible"]:
            ops.append({"s": "s0", "k": "exec", "sql": "SELECT * FROM merge_candidates", "tag": "helper_probe"})
        if in_txn:
            ops.append({"s": "s0", "k": "exec", "sql": end, "tag": end.lower()})
        if two_sessions and rng.random() < 0.7:
            b = [fresh(), fresh(), 0]
            ops.append({"s": "s1", "k": "exec", "sql": f"INSERT INTO BYS VALUES ({b[0]}, {b[1]}, {b[2]})", "tag": "bystander", "row": b})
        if rng.random() < 0.4:
            r = [rng.choice(keys[:5]), fresh(), rng.choice([0, 1, 2])]
            ops.append({"s": rng.choice(["s0", "s1"]) if two_sessions else "s0", "k": "exec", "sql": f"INSERT INTO TGT VALUES ({r[0]}, {r[1]}, {r[2]})", "tag": "tgt_insert", "row": r})
    return {"profile": NAME, "config": {"hazards": hz, "target_rows": trows, "shape": shape, "not_null_w": not_null_w}, "strategy": "serial", "ops": ops}


# --------------------------------------------------------------------------- execution + oracle


def _cond_on(c: Any) -> str | None:
    if not c:
        return None
    if "or" in c or "and" in c:
        ons = {_cond_on(x) for x in (c.get("or") or c["and"])}
        return "target" if "target" in ons else "source"
    return c["on"]


def v_(signature: str, clause: str, detail: Any) -> dict[str, Any]:
    return {"property": "C12", "signature": signature, "clause": clause, "detail": detail}


def run(case: dict[str, Any]) -> dict[str, Any]:
    sim = core.begin()
    world = World(sim)
    cfg = case["config"]
    probes: dict[str, int] = {}
    violation = None
    tgt: list[list[Any]] = []  # committed target rows (model); filled by the set-up INSERT when it runs
    pending: list[list[Any]] | None = None  # target rows inside s0's open transaction
    bys: list[list[Any]] = []
    shapes: list[Any] = []
    n = 0

    def P(name: str, inc: int = 1) -> None:
        probes[name] = probes.get(name, 0) + inc

    try:
        for op in case["ops"]:
            if op["k"] != "connect" and op["s"] not in world.conns:
                continue
            sim.set_session(op["s"])
            sim.note(sim.tick(), op["s"], op["k"], op.get("tag"))
            out = world.apply(op)
            n += 1
            tag = op.get("tag")
            if op["k"] == "connect" or tag == "setup":
                if not out.get("ok"):
                    raise core.HarnessError(f"set-up failed: {out}")
                if op.get("tgt_rows"):
                    tgt = [list(r) for r in op["tgt_rows"]]
                continue
            cur_rows = pending if pending is not None else tgt
            if tag == "begin":
                pending = [list(r) for r in tgt]
            elif tag in ("commit", "rollback"):
                if pending is not None:
                    if tag == "commit":
                        tgt = pending
                    else:
                        P("merge_in_rolled_back_txn")
                    pending = None
            elif tag == "bystander":
                if not out.get("ok"):
                    violation = v_(f"bystander-fails/{out.get('exc')}", "another session's DML failed", {"op": op["sql"], "outcome": out})
                bys.append(list(op["row"]))
            elif tag == "tgt_insert":
                if out.get("ok"):
                    (pending if pending is not None and op["s"] == "s0" else tgt).append(list(op["row"]))
                    if pending is not None and op["s"] != "s0":
                        pending.append(list(op["row"]))  # not reachable: generator keeps s1 off TGT while s0's txn is open
            elif tag == "merge_fail":
                P("failing_merge" + ("_in_txn" if pending is not None else ""))
                if out.get("ok"):
                    violation = v_("should-fail/refers-to-missing", "a MERGE referring to something missing must fail", {"sql": op["sql"]})
                else:
                    got_rows = target_rows(world, "s0" if pending is not None else None)
                    if sorted(norm_rows(got_rows), key=sort_key) != sorted(norm_rows(cur_rows), key=sort_key):
                        violation = v_("failed-merge-changed-target" + ("/in-transaction" if pending is not None else ""), "a failing MERGE changes nothing (an open transaction keeps its pending writes)",
                                       {"sql": op["sql"], "error": out, "target_before": cur_rows, "target_after": got_rows})
            elif tag == "helper_probe":
                if out.get("ok"):
                    violation = v_("helper-visible/merge_candidates", "MERGE leaves no helper object visible in the session", {"probe": op["sql"], "rows": out.get("rows", [])[:3]})
            elif tag == "merge":
                m = op["merge"]
                exp_rows, counts = ref_merge(cur_rows, op["source_rows"], m["clauses"])
                kinds = [c["kind"] for c in m["clauses"]]
                conds = [_cond_on(c["cond"]) for c in m["clauses"]]
                if any(isinstance(c["cond"], dict) and ("or" in c["cond"] or "and" in c["cond"]) for c in m["clauses"]):
                    P("compound_condition")
                if "target" in conds:
                    P("cond_on_target")
                if "source" in conds:
                    P("cond_on_source")
                keyvals = [r[0] for r in cur_rows if r[0] is not None]
                if len(keyvals) != len(set(keyvals)):
                    P("dup_target_keys")
                if any(r[0] is None for r in cur_rows) or any(r[0] is None for r in op["source_rows"]):
                    P("null_key")
                if m["source_form"] == "subquery":
                    P("subquery_source")
                if not cur_rows:
                    P("empty_target")
                if len(kinds) >= 3:
                    P("three_clauses")
                shapes.append([kinds, conds, m["source_form"], m["qualified"], len(cur_rows) > 0, len(op["source_rows"]) > 0])
                # would the reference INSERT violate NOT NULL? then the whole MERGE must fail and change nothing
                must_fail = cfg["not_null_w"] and any(r[2] is None for r in exp_rows)
                got_rows = target_rows(world, "s0" if pending is not None else None)
                if must_fail:
                    P("failing_substatement")
                    if out.get("ok"):
                        violation = v_("should-fail/not-null", "a MERGE whose INSERT clause violates NOT NULL must fail", {"sql": op["sql"]})
                    elif sorted(norm_rows(got_rows), key=sort_key) != sorted(norm_rows(cur_rows), key=sort_key):
                        violation = v_("partial-effect-on-failure", "a failing MERGE applies all of its effects or none",
                                       {"sql": op["sql"], "error": out, "target_before": cur_rows, "target_after": got_rows})
                    elif out.get("exc") != "ProgrammingError" and not str(out.get("mod", "")).startswith("snowflake"):
                        pass  # the error class of a constraint violation is not in C12's (nor C07's) list
                    if violation:
                        break
                    continue
                if not out.get("ok"):
                    violation = v_(f"merge-raises/{out.get('exc')}" + ("/target-alias" if "tgt" in op["sql"].split(" USING ")[0].split() else ""),
                                   "a generated deterministic MERGE must succeed", {"sql": op["sql"], "outcome": out})
                    break
                P("merge_ok")
                if sorted(norm_rows(got_rows), key=sort_key) != sorted(norm_rows(exp_rows), key=sort_key):
                    dupk = len(keyvals) != len(set(keyvals))
                    violation = v_("target-differs/" + ("cond-target+dup-keys/" if "target" in conds and dupk else "") + "+".join(kinds) + ("/cond-target" if "target" in conds and not dupk else "") + ("/dup-keys" if dupk and "target" not in conds else ""),
                                   "the target must equal the reference MERGE result",
                                   {"sql": op["sql"], "target_before": cur_rows, "source": op["source_rows"], "expected": sorted(exp_rows, key=sort_key), "observed": sorted(got_rows, key=sort_key)})
                    break
                # status row: documented names, true counts
                rows = out.get("rows") or []
                names = None
                with sim.quiet():
                    try:
                        names = None
                    except BaseException:  # noqa: BLE001, S110
                        pass
                want = [counts[x] for x in ("inserted", "updated", "deleted") if (x == "inserted" and "insert" in kinds) or (x == "updated" and "update" in kinds) or (x == "deleted" and "delete" in kinds)]
                got = rows[0] if rows else None
                plain = [int(x["v"]) if isinstance(x, dict) and x.get("t") == "Decimal" else x for x in (got or [])]
                if len(rows) == 1 and len(plain) == len(want) and all((p is None and w == 0) or p == w for p, w in zip(plain, want)) and any(p is None for p in plain):
                    P("null_counts")
                    if cfg["hazards"]["null_counts"]:
                        violation = v_("counts/null-when-zero", "a count of 0 rows is reported as 0, not NULL", {"sql": op["sql"], "expected": want, "observed": rows})
                        break
                elif len(rows) != 1 or plain != want:
                    violation = v_("counts/" + "+".join(kinds) + ("/cond-target" if "target" in conds else ""), "the status row reports the rows actually inserted/updated/deleted",
                                   {"sql": op["sql"], "expected": want, "observed": rows, "names": names})
                    break
                if got is not None and any(isinstance(x, dict) for x in got):
                    P("decimal_counts")
                    if cfg["hazards"]["decimal_counts"]:
                        violation = v_("counts-type/Decimal", "the counts are integers", {"sql": op["sql"], "observed": rows})
                        break
                if pending is not None:
                    pending = exp_rows
                else:
                    tgt = exp_rows
            if violation:
                break
        sim.set_session("main")
        if violation is None:
            # final: committed target, sources and bystander exactly as the model says; no helper listed
            snap = world.observe(with_sessions=False)
            got_t = snap["rows"].get(f"{DB}.{SC}.TGT", [])
            if got_t != sorted(norm_rows(tgt), key=sort_key):
                violation = v_("final-target", "the committed target at the end differs", {"expected": sorted(norm_rows(tgt), key=sort_key), "observed": got_t})
            elif snap["rows"].get(f"{DB}.{SC}.BYS", []) != sorted(norm_rows(bys), key=sort_key):
                violation = v_("bystander-changed", "MERGE touched another table", {"expected": bys, "observed": snap["rows"].get(f"{DB}.{SC}.BYS")})
            else:
                for op in case["ops"]:
                    if op.get("tag") == "merge":
                        name = f"{DB}.{SC}.{op['merge']['source']}"
                        if snap["rows"].get(name, []) != sorted(norm_rows(op["source_rows"]), key=sort_key):
                            violation = v_("source-changed", "MERGE leaves the source untouched", {"source": name, "expected": op["source_rows"], "observed": snap["rows"].get(name)})
                            break
                extra = [t for t in snap["tables"] if t.split(".")[-1] not in ("TGT", "BYS") and not t.split(".")[-1].startswith(("SRC", "USRC"))]
                if violation is None and extra:
                    violation = v_("helper-listed", "a helper object is listed in the catalog", {"tables": extra})
        nontrivial = any(len(s[0]) >= 2 or any(s[1]) for s in shapes if s[4] and s[5])
        return {
            "violations": [violation] if violation else [],
            "digest": sim.digest(),
            "steps": sim.engine_events,
            "ops": n,
            "probes": probes,
            "faults": {"failing_substatement": probes.get("failing_substatement", 0), "rollback": probes.get("merge_in_rolled_back_txn", 0)},
            "strategy": "serial",
            "fingerprint": fp([shapes, cfg["shape"], cfg["not_null_w"]]),
            "nontrivial": nontrivial,
        }
    finally:
        world.close()
        core.end()


def target_rows(world: World, txn_session: str | None) -> list[list[Any]]:
    """Rows of TGT: committed view, or the view inside the session's open transaction."""
    if txn_session is None:
        cur = world.raw_root().cursor()
        try:
            return [list(r) for r in cur.execute(f'select * from "{DB}"."{SC}"."TGT"').fetchall()]
        finally:
            cur.close()
    with world.sim.quiet():
        conn = world.conns[txn_session]
        return [list(r) for r in core.raw(conn._duck_conn).execute(f'select * from "{DB}"."{SC}"."TGT"').fetchall()]
