"""Profiles: one workload + oracle per group of properties (DESIGN.md section 7)."""

from __future__ import annotations

import importlib
from typing import Any

# property id -> profile module name
PROPERTY_PROFILE = {
    "C16": "batch",
    "C17": "server",
    "C18": "crash",
    "C19": "race",
    "C20": "patch",
    "C03": "ctx",
    "C04": "dml",
    "C05": "cursor",
    "C06": "cursor",
    "C07": "fail",
    "C09": "meta",
    "C12": "merge",
    "C13": "txn",
    "C14": "connect",
    "C15": "vars",
}


def load(name: str) -> Any:
    return importlib.import_module(f"fssim.profiles.{name}")


def spec(name: str, prop: str) -> dict[str, Any]:
    m = load(name)
    if hasattr(m, "spec_for"):
        return m.spec_for(prop)
    return m.SPEC
