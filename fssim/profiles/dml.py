"""Profile `dml` (C04): DML changes exactly the right rows and reports the true affected count.

1-2 sessions in autocommit on one schema; generated tables of 1-4 nullable INT/VARCHAR columns with
duplicates and NULLs; INSERT (VALUES, multi-row, column lists, INSERT..SELECT), UPDATE, DELETE with
three-valued-logic predicates (incl. always false/unknown), TRUNCATE, statements on empty tables, DDL for
the status messages; a second session does DML on bystander tables in between (statement-level schedule).
"""

from __future__ import annotations

from typing import Any

from ..model import Model
from ..sqlgen import Gen
from ..sqlworld import Oracle, run_serial_case

NAME = "dml"
PROPERTIES = ["C04"]
CLAUSE_PROPS = {"raw-exception": "C07", "error-code": "C07", "ctx-attrs": "C03", "ctx-function": "C03"}

SPEC = {
    "runs": {"quick": 500, "thorough": 20000},
    "wall": {"quick": 600, "thorough": 7200},
    "chunk": 10,
    "level": "exploration",
    "technique": "deterministic simulation: seeded DML histories on 1-2 interleaved sessions, each statement checked against an executable 3VL reference model (status row, rowcount, full-snapshot effect)",
    "level_text": (
        "Seeded search over DML histories (INSERT forms, UPDATE/DELETE with generated three-valued predicates, TRUNCATE, empty tables, "
        "zero-row statements, failing DML) interleaved at statement level with a second session's bystander DML. After every statement "
        "the status row (names and values), cursor.rowcount, the target's contents as a multiset and the whole rest of the observable "
        "snapshot are compared with the reference model. Sampling, not proof."
    ),
    "level_note": "Trusted: the 3VL evaluator and DML semantics of the reference model (INT/VARCHAR columns only); observation of rows through an un-proxied DuckDB cursor.",
    "rule": (
        "one evaluation = one seeded history (6-40 ops); non-trivial = the run executed >=3 DML statements incl. at least one UPDATE/DELETE "
        "with a predicate; distinct = hash of the sequence of (statement kind, predicted-failure flag)"
    ),
    "bounds": "1-2 sessions, 6-40 ops, tables of 1-4 INT/VARCHAR columns, <= ~30 rows",
    "components_real": ["fakesnow/*", "sqlglot", "duckdb engine (in-memory)"],
    "components_stubbed": ["caller threads (one thread impersonates the sessions in the scheduled statement order)"],
    "assumptions": ["statement-level atomicity (engine-call interleavings are C19's subject)"],
    "mandatory_probes": {"any": ["zero_row_dml", "op_update", "op_delete", "op_insert_select", "dict_cursor_dml"]},
}


def gen(rng: Any, prop: str, tier: str) -> dict[str, Any]:
    k = rng.choice([1, 2, 2])
    g = Gen(rng, Model(), vary_spelling=rng.random() < 0.6)
    sids = [f"s{i}" for i in range(k)]
    for sid in sids:
        g.connect(sid, "DB1", "S1")
    g.exec(sids[0], {"t": "create_table", "ref": [None, None, "PB"], "cols": [["A", "INT"], ["B", "VARCHAR(40)"]]})
    n_ops = rng.randint(6, 40)
    names = ["T1", "T2", "T3"]
    for _ in range(n_ops):
        sid = rng.choice(sids)
        tables = [t for t in g.all_tables() if t[2] != "PB"]
        kind = rng.choices(
            ["create", "insert", "insert_cols", "insert_select", "update", "delete", "truncate", "select", "drop", "ddl", "bad", "write_pandas", "executemany"],
            [6 if len(tables) < 2 else 2, 16, 5, 4, 12, 10, 2, 6, 1, 2, 3, 3, 3],
        )[0]
        if kind == "create" or not tables:
            ncol = rng.randint(1, 4)
            cols = [[f"C{i}", rng.choice(["INT", "INT", "VARCHAR(20)"])] for i in range(ncol)]
            free = [n for n in names if ("DB1", "S1", n) not in tables] or names
            g.exec(sid, {"t": "create_table", "ref": [None, None, rng.choice(free)], "cols": cols, "or_replace": rng.random() < 0.3})
            continue
        fq = rng.choice(tables)
        ref = g.qualify(sid, fq, 0.0)
        cols = g.columns_of(fq)
        extra: dict[str, Any] = {"dict": True, "cur": 1} if rng.random() < 0.3 else {}
        if kind == "insert":
            rows = []
            existing = g.m.dbs[fq[0]][fq[1]]["tables"][fq[2]]["rows"]
            for _ in range(rng.choice([1, 1, 2, 3, 5])):
                if existing and rng.random() < 0.3:
                    rows.append(list(rng.choice(existing)))  # duplicates
                else:
                    rows.append(g.row_for(cols, 0.2))
            if rng.random() < 0.2:
                # an INSERT with bound parameters (pyformat) into the side table PB: the values are data whatever they contain
                # (PB is never used in generated predicates, so its '$' texts do not reappear as literals: that is C15's known finding)
                row = [g.fresh(), rng.choice(["$5 off", "was $price each", "100%", "semi;colon", "plain"])]
                st = {"t": "insert", "ref": [None, None, "PB"], "rows": [row]}
                g.m.apply(sid, st)
                g.ops.append({"s": sid, "k": "exec", "sql": "INSERT INTO PB VALUES (%s, %s)", "params": row, "st": st, **extra})
                continue
            g.exec(sid, {"t": "insert", "ref": ref, "rows": rows}, **extra)
        elif kind == "write_pandas":
            # the same insert through write_pandas; the dataframe's row labels (default, repeated, shuffled) are not data
            n = rng.choice([1, 2, 3, 4])
            rows = [g.row_for(cols, 0.0) for _ in range(n)]
            index = rng.choice([None, [rng.randint(0, 1) for _ in range(n)], rng.sample(range(10, 10 + n), n)])
            st = {"t": "insert", "ref": list(fq), "rows": rows}
            g.ops.append({"s": sid, "k": "write_pandas", "table": fq[2], "database": fq[0], "schema": fq[1], "cols": [c["name"] for c in cols], "rows": rows, "index": index, "st": st})
            g.m.apply(sid, st)
        elif kind == "executemany":
            # one INSERT per parameter row (values incl. NULL arrive as data); only the effect is constrained
            rows = [g.row_for(cols, 0.2) for _ in range(rng.choice([1, 2, 3, 4]))]
            st = {"t": "insert", "ref": list(fq), "rows": rows}
            g.ops.append({"s": sid, "k": "executemany", "sql": f"INSERT INTO {'.'.join(fq)} VALUES ({', '.join(['%s'] * len(cols))})", "seqparams": rows, "st": st, "effect_only": True})
            g.m.apply(sid, st)
        elif kind == "insert_cols":
            sub = rng.sample(cols, rng.randint(1, len(cols)))
            g.exec(sid, {"t": "insert", "ref": ref, "cols": [c["name"] for c in sub], "rows": [g.row_for(sub, 0.2) for _ in range(rng.choice([1, 2]))]}, **extra)
        elif kind == "insert_select":
            same = [t for t in tables if [c["type"] for c in g.columns_of(t)] == [c["type"] for c in cols]]
            src = rng.choice(same)
            g.exec(sid, {"t": "insert_select", "ref": ref, "src": g.qualify(sid, src, 0.0), "where": g.predicate(src) if rng.random() < 0.6 else None}, **extra)
        elif kind == "update":
            c = rng.choice(cols)
            if c["type"].startswith("VARCHAR"):
                e: Any = rng.choice([f"u{g.fresh()}", None, ["concat", c["name"], "x"]])
            else:
                e = rng.choice([g.fresh(), None, ["add", c["name"], 1]])
            g.exec(sid, {"t": "update", "ref": ref, "set": [[c["name"], e]], "where": g.predicate(fq) if rng.random() < 0.9 else None}, **extra)
        elif kind == "delete":
            g.exec(sid, {"t": "delete", "ref": ref, "where": g.predicate(fq) if rng.random() < 0.9 else None}, **extra)
        elif kind == "truncate":
            g.exec(sid, {"t": "truncate", "ref": ref})
        elif kind == "select":
            g.exec(sid, {"t": "select", "ref": ref, "where": g.predicate(fq) if rng.random() < 0.7 else None})
        elif kind == "drop":
            g.exec(sid, {"t": "drop_table", "ref": ref})
        elif kind == "ddl":
            r = rng.random()
            if r < 0.5:
                g.exec(sid, {"t": "create_schema", "db": None, "name": rng.choice(["S2", "S3"]), "ine": True})
            else:
                g.exec(sid, {"t": "create_view", "ref": [None, None, "V1"], "src": list(fq)})
        elif kind == "bad":
            # failing DML must leave everything unchanged
            r = rng.random()
            if r < 0.4:
                g.exec(sid, {"t": "insert", "ref": ref, "rows": [g.row_for(cols) + [1]]})  # one value too many
            elif r < 0.7:
                g.exec(sid, {"t": rng.choice(["update", "delete"]), "ref": [None, None, "T9"], "set": [["C0", 1]], "where": None})
            else:
                g.exec(sid, {"t": "insert", "ref": ref, "cols": ["NOPE"], "rows": [[1]]})
    return {"profile": NAME, "config": {"k": k, "fs_opts": {}}, "strategy": "serial", "ops": g.ops}


def _focus(op: dict[str, Any], pred: dict[str, Any]) -> bool:
    return (op.get("st") or {}).get("t") in ("update", "delete", "insert", "insert_select", "truncate")


def run(case: dict[str, Any]) -> dict[str, Any]:
    res = run_serial_case(case, Oracle("C04", CLAUSE_PROPS), sessions_every=False, focus=_focus, min_focus=3)
    return res
