"""Profile `ctx` (C03): names resolve against each connection's own current database and schema.

2-3 sessions on one instance, statement-level schedule (the op list order), histories of
CREATE/DROP DATABASE|SCHEMA|TABLE|VIEW, USE DATABASE/SCHEMA and queries/DML/DDL at all three
qualification levels; fault dimension: failing USE, statements without the needed context, dropping the
current schema, another session changing its own context in between.  Oracle: DESIGN.md section 7 (C03).
"""

from __future__ import annotations

from typing import Any

from ..model import Model
from ..sqlgen import DBS, SCHEMAS, TABLES, VIEWS, Gen
from ..sqlworld import Oracle, run_serial_case

NAME = "ctx"
PROPERTIES = ["C03"]

CLAUSE_PROPS = {"raw-exception": "C07", "error-code": "C03", "rowcount": "C04", "status-row": "C04"}

SPEC = {
    "runs": {"quick": 1300, "thorough": 20000},
    "wall": {"quick": 600, "thorough": 7200},
    "chunk": 10,
    "level": "exploration",
    "technique": "deterministic simulation: seeded multi-session statement histories with context faults, checked op by op against an executable reference model and a full observable-state snapshot",
    "level_text": (
        "Seeded search over statement-level interleavings of 2-3 connections of one instance issuing CREATE/DROP/USE and "
        "queries/DML/DDL at all three qualification levels, with context faults (failing USE, missing context, dropped current schema). "
        "After every statement the outcome class, the exact effect on the full fully-qualified snapshot, and every session's "
        "conn.database/conn.schema/CURRENT_DATABASE()/CURRENT_SCHEMA() are compared with a reference model. Sampling, not proof."
    ),
    "level_note": "Trusted: the reference model of the generated SQL subset; observation through DuckDB system functions (catalog) and the public API (context). Where the property is silent the model accepts a set of outcomes.",
    "rule": (
        "one evaluation = one seeded history (8-40 ops, 2-3 sessions, name pools 2 dbs x 2 schemas x 2 tables); non-trivial = the run "
        "executed at least one statement whose resolution depends on the session context (unqualified or schema-qualified name, USE, "
        "or a predicted 90105/90106); distinct = hash of the sequence of (statement kind, predicted-failure flag)"
    ),
    "bounds": "2-3 sessions, 8-40 ops, 2 databases x 2 schemas x 2 tables x 1 view, statement-level schedules",
    "components_real": ["fakesnow/*", "sqlglot", "duckdb engine (in-memory)"],
    "components_stubbed": ["caller threads (one thread impersonates the sessions in the scheduled statement order)"],
    "assumptions": ["statement-level atomicity (engine-call interleavings are C19's subject)"],
    "mandatory_probes": {"any": ["predicted_90105", "predicted_90106", "op_use_schema", "op_use_db"]},
}

HAZARDS = ["use_db_with_schema", "use_schema_no_db", "foreign_drop_current_schema", "second_table_needs_context"]


def gen(rng: Any, prop: str, tier: str) -> dict[str, Any]:
    hazards = {h: rng.random() < 0.07 for h in HAZARDS}
    k = rng.choice([2, 2, 3])
    n_ops = rng.randint(8, 40)
    g = Gen(rng, Model(), vary_spelling=rng.random() < 0.7)
    sids = [f"s{i}" for i in range(k)]
    # a quarter of the histories name tables and views like the schemas and databases around them
    collide = rng.random() < 0.25
    g.tnames = ["T1", rng.choice(SCHEMAS)] if collide else list(TABLES)  # type: ignore[attr-defined]
    g.vnames = [rng.choice(["V1", "DB1"]), "S2" if g.tnames[1] == "S1" else "S1"] if collide else list(VIEWS)  # type: ignore[attr-defined]
    # connects: first ones up front, with/without database/schema
    for sid in sids:
        _connect(g, rng, sid)
    for _ in range(n_ops):
        sid = rng.choice(sids)
        _one(g, rng, sid, hazards)
    return {"profile": NAME, "config": {"k": k, "hazards": hazards, "fs_opts": {}}, "strategy": "serial", "ops": g.ops}


def _connect(g: Gen, rng: Any, sid: str) -> None:
    r = rng.random()
    if r < 0.6:
        g.connect(sid, rng.choice(DBS), rng.choice(SCHEMAS))
    elif r < 0.8:
        g.connect(sid, rng.choice(DBS), None)
    else:
        g.connect(sid, None, None)


def _one(g: Gen, rng: Any, sid: str, hz: dict[str, bool]) -> None:
    m = g.m
    cd, cs = m.session_ctx(sid)
    tables = g.all_tables()
    kind = rng.choices(
        ["create_table", "insert", "select", "update", "delete", "ctas", "create_schema", "drop_schema", "create_db", "drop_table",
         "use_schema", "use_db", "ctxq", "create_view", "select_view", "drop_view", "missing", "reconnect"],
        [10, 14, 10, 4, 3, 3, 5, 3, 3, 3, 9, 5, 4, 3, 3, 1, 4, 2],
    )[0]
    if kind == "create_table":
        tgt = g.pick_target_schema(sid)
        if tgt is None:
            return
        name = rng.choice(g.tnames)
        ref = g.qualify(sid, (tgt[0], tgt[1], name))
        g.exec(sid, {"t": "create_table", "ref": ref, "cols": [["A", "INT"], ["B", "VARCHAR(20)"]],
                     "ine": rng.random() < 0.15, "or_replace": rng.random() < 0.1})
    elif kind in ("insert", "select", "update", "delete", "drop_table") and tables:
        fq = rng.choice(tables)
        ref = g.qualify(sid, fq)
        if kind == "insert":
            g.exec(sid, {"t": "insert", "ref": ref, "rows": [[g.fresh(), f"{sid}"] for _ in range(rng.choice([1, 1, 2]))]})
        elif kind == "select":
            g.exec(sid, {"t": "select", "ref": ref})
        elif kind == "update":
            g.exec(sid, {"t": "update", "ref": ref, "set": [["B", f"u{g.fresh()}"]], "where": g.predicate(fq)})
        elif kind == "delete":
            g.exec(sid, {"t": "delete", "ref": ref, "where": g.predicate(fq)})
        else:
            g.exec(sid, {"t": "drop_table", "ref": ref, "ie": rng.random() < 0.2})
    elif kind == "ctas" and tables:
        src = rng.choice(tables)
        tgt = g.pick_target_schema(sid)
        if tgt is None:
            return
        g.exec(sid, {"t": "ctas", "ref": g.qualify(sid, (tgt[0], tgt[1], rng.choice(g.tnames))), "src": g.qualify(sid, src, 0.2 if hz["second_table_needs_context"] else 0.0)})
    elif kind == "create_schema":
        d = rng.choice(sorted(m.dbs) or DBS)
        name = rng.choice(SCHEMAS)
        unq = cd == d and rng.random() < 0.6 or rng.random() < 0.08
        g.exec(sid, {"t": "create_schema", "db": None if unq else d, "name": name, "ine": rng.random() < 0.3})
    elif kind == "drop_schema":
        sch = g.all_schemas()
        if not sch:
            return
        d, s = rng.choice(sch)
        foreign_use = any(m.session_ctx(x) == (d, s) for x in m.sessions if x != sid)
        if foreign_use and not hz["foreign_drop_current_schema"]:
            return
        unq = cd == d and rng.random() < 0.6
        g.exec(sid, {"t": "drop_schema", "db": None if unq else d, "name": s, "ie": rng.random() < 0.2})
    elif kind == "create_db":
        g.exec(sid, {"t": "create_db", "name": rng.choice(DBS), "ine": rng.random() < 0.4})
    elif kind == "use_schema":
        sch = g.all_schemas()
        r = rng.random()
        if r < 0.12 or not sch:
            d, s = rng.choice(DBS), "S9"  # missing schema
        else:
            d, s = rng.choice(sch)
        unq = cd == d and rng.random() < 0.6
        if cd is None and rng.random() < 0.1 and hz["use_schema_no_db"]:
            unq = True
        g.exec(sid, {"t": "use_schema", "db": None if unq else d, "name": s})
    elif kind == "use_db":
        if cs is not None and not hz["use_db_with_schema"]:
            return
        name = rng.choice(sorted(m.dbs) or DBS) if rng.random() < 0.85 else "DB9"
        g.exec(sid, {"t": "use_db", "name": name})
    elif kind == "ctxq":
        g.exec(sid, {"t": "ctxq"})
    elif kind == "create_view" and tables:
        src = rng.choice(tables)
        tgt = g.pick_target_schema(sid)
        if tgt is None:
            return
        g.exec(sid, {"t": "create_view", "ref": g.qualify(sid, (tgt[0], tgt[1], rng.choice(g.vnames))), "src": [src[0], src[1], src[2]]})
    elif kind == "select_view" and g.all_views():
        g.exec(sid, {"t": "select", "ref": g.qualify(sid, rng.choice(g.all_views()))})
    elif kind == "drop_view" and g.all_views():
        g.exec(sid, {"t": "drop_view", "ref": g.qualify(sid, rng.choice(g.all_views()))})
    elif kind == "missing":
        # a statement on something that does not exist, at a random qualification level
        d = rng.choice(sorted(m.dbs) or DBS)
        ss = sorted(m.dbs.get(d, {})) or SCHEMAS
        fq = (d, rng.choice(ss), "T9")
        g.exec(sid, {"t": rng.choice(["select", "drop_table"]), "ref": g.qualify(sid, fq, 0.2)})
    elif kind == "reconnect":
        _connect(g, rng, sid)


def _focus(op: dict[str, Any], pred: dict[str, Any]) -> bool:
    st = op.get("st") or {}
    if st.get("t") in ("use_db", "use_schema", "ctxq"):
        return True
    ref = st.get("ref")
    if ref and (ref[0] is None or ref[1] is None):
        return True
    return not pred["ok"] and pred["errs"] and pred["errs"][0][0] in (90105, 90106)


def run(case: dict[str, Any]) -> dict[str, Any]:
    # hazards whose listed finding may fire first: keep looking at what happens afterwards (model-free)
    return run_serial_case(case, Oracle("C03", CLAUSE_PROPS), focus=_focus,
                           tolerate=("ctx-attrs/use_db/own/", "ctx-attrs/drop_schema/other/", "error-code/use_schema/q0/want=90105", "error-code/ctas/second-table/"))
