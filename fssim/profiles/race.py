"""Profile `race` (C19): k sessions on their own threads, scheduled at engine-call granularity.

Oracle: (1) no operation raises / hangs where every serial order succeeds, (2) serial-order search
against a tiny executable model (DESIGN.md appendix B), (3) final snapshot equals the model's.
"""

from __future__ import annotations

import json
from typing import Any

from .. import core
from ..runner import fp
from ..threaded import run_threaded
from ..world import World, norm_rows, sort_key

NAME = "race"
PROPERTIES = ["C19"]
DB = "DB1"
SC = "SC"

SPEC = {
    "runs": {"quick": 2500, "thorough": 60000},
    "wall": {"quick": 600, "thorough": 7200},
    "chunk": 10,
    "level": "exploration",
    "technique": "deterministic simulation: seeded baton scheduling of session threads at engine-call granularity + serial-order (linearizability) search against a reference model",
    "level_text": (
        "Seeded search over interleavings of the individual engine calls of 2-3 concurrent sessions (uniform random, PCT with 1-3 "
        "priority changes, window-targeted, stall-one-session and serial strategies); every run is checked for raised/hung operations and by an exact "
        "serial-order search against a small executable model, then for final-state equality. A tenth of the runs are the keyed scenario: overlapping "
        "transactions inserting the same PRIMARY KEY value (the engine may refuse one - tolerated), checked for 'an acknowledged insert is never lost, a refused one leaves nothing'. "
        "Sampling, not enumeration: a clean batch is evidence, not proof."
    ),
    "level_note": (
        "Trusted: the DuckDB engine is atomic per call; pre-emption only at engine calls/op boundaries; the tiny model of the generated op subset. "
        "Free-running multi-threaded runs are deliberately not part of the check (they would be runtime observation)."
    ),
    "rule": (
        "one evaluation = one seeded run: 2-3 sessions x 1-5 ops (connect with auto-create, CREATE TABLE with comment, "
        "INSERT/MERGE/SELECT on a shared table, metadata reads, session variables) on baton-scheduled threads with a "
        "pre-emption point before every engine call; non-trivial = at least one pre-emption inside an operation while "
        ">=2 sessions were live; distinct = hash of (op kinds per session, sequence of (session, engine-call kind) pairs)"
    ),
    "bounds": "k in 2..3 sessions (thorough: up to 4, then at most 3 ops each), 1-5 ops per session after connect, strategies random/pct(1-3)/targeted/serial/stall",
    "components_real": ["fakesnow/*", "sqlglot", "duckdb engine (in-memory)", "snowflake.connector error classes"],
    "components_stubbed": ["thread scheduling (baton over real threads)", "locks created by fakesnow code (SimLock)"],
    "assumptions": [
        "one DuckDB call is atomic (no interleaving inside the engine)",
        "pre-emption points are engine calls and operation boundaries only; pure-Python sections of fakesnow between two engine calls run atomically",
    ],
    "mandatory_probes": {"any": ["preempt_inside_op", "connect_overlap", "keyed_scenario", "keyed_refused"]},
}


# --------------------------------------------------------------------------- generation


def gen_keyed(rng: Any) -> dict[str, Any]:
    """Transactions of concurrent sessions inserting the SAME key into a table with a PRIMARY KEY. The engine may refuse
    one of them (statements may fail here - conflicting writes); what the property still says is that an insert
    whose transaction was acknowledged is never lost, and a refused one leaves nothing behind."""
    k = rng.choice([2, 2, 3])
    ops: list[dict[str, Any]] = []
    for i in range(k):
        sid = f"s{i}"
        ops.append({"s": sid, "k": "connect", "database": DB, "schema": SC, "tag": "connect"})
        keys = rng.sample([1, 2, 3], rng.choice([1, 2]))
        for rnd, key in enumerate(keys):
            txn = rng.random() < 0.8
            if txn:
                ops.append({"s": sid, "k": "exec", "tag": "begin", "round": rnd, "sql": "BEGIN"})
            ops.append({"s": sid, "k": "exec", "tag": "ins_keyed", "round": rnd, "key": key, "sql": f"INSERT INTO {DB}.{SC}.KEYED VALUES ({key}, '{sid}')"})
            if txn:
                if rng.random() < 0.3:
                    ops.append({"s": sid, "k": "commit", "tag": "commit", "round": rnd})
                else:
                    ops.append({"s": sid, "k": "exec", "tag": "commit", "round": rnd, "sql": "COMMIT"})
                ops.append({"s": sid, "k": "exec", "tag": "rollback", "round": rnd, "sql": "ROLLBACK"})  # no-op after a successful COMMIT, ends a refused transaction
    return {
        "profile": NAME,
        "config": {"k": k, "mode": "keyed", "hazards": {}},
        "strategy": rng.choice(["random", "pct", "targeted", "stall"]),
        "pct_depth": rng.choice([1, 2, 3]),
        "pct_horizon": 10 * k + 6 * len(ops),
        "sched_seed": rng.getrandbits(48),
        "ops": ops,
    }


def run_keyed(case: dict[str, Any]) -> dict[str, Any]:
    sim = core.begin()
    world = World(sim)
    violations: list[dict[str, Any]] = []
    probes: dict[str, int] = {"keyed_scenario": 1}
    try:
        with sim.quiet():
            setup = world.fs.connect(database=DB, schema=SC)
            setup.cursor().execute(f"CREATE TABLE {DB}.{SC}.KEYED (id int PRIMARY KEY, who varchar(10))")
        res = run_threaded(sim, world, case, case["ops"])
        history = res["history"]
        probes["preempt_inside_op"] = res["preemptions"]
        if res["deadlock"]:
            violations.append(v_("hang/deadlock", "every live session is blocked on a lock", {"blocked": res["blocked"]}))
        with sim.quiet():
            final = sorted(norm_rows(setup.cursor().execute(f"SELECT id, who FROM {DB}.{SC}.KEYED").fetchall()), key=sort_key)
        rounds: dict[tuple[str, int], dict[str, Any]] = {}
        for h in sorted(history, key=lambda x: x["inv"]):
            op = h["op"]
            if op.get("tag") == "connect":
                if not h["out"].get("ok"):
                    violations.append(v_("raises/connect/" + str(h["out"].get("exc")), "connect failed", {"op": op, "outcome": h["out"]}))
                continue
            r = rounds.setdefault((h["s"], op["round"]), {"s": h["s"], "ok": True, "key": None, "failed": []})
            if op.get("tag") == "ins_keyed":
                r["key"] = op["key"]
            if op.get("tag") == "rollback":
                if not h["out"].get("ok"):
                    violations.append(v_("raises/rollback/" + str(h["out"].get("exc")), "ROLLBACK must always succeed", {"op": op, "outcome": h["out"]}))
                continue
            if not h["out"].get("ok"):
                r["ok"] = False
                r["failed"].append([op.get("tag"), h["out"].get("exc")])
                probes["keyed_refused"] = probes.get("keyed_refused", 0) + 1
        if not violations:
            per_key: dict[int, list[str]] = {}
            for key, who in final:
                per_key.setdefault(key, []).append(who)
            for (sid, _rnd), r in sorted(rounds.items()):
                present = sid in per_key.get(r["key"], [])
                if r["ok"] and not present:
                    violations.append(v_("acknowledged-insert-lost/keyed", "an insert whose statements (and COMMIT) were all acknowledged is missing at the end",
                                         {"session": sid, "key": r["key"], "final": final, "rounds": {f"{a}/{b}": v for (a, b), v in rounds.items()}}))
                    break
                if not r["ok"] and present:
                    violations.append(v_("refused-insert-present/keyed", "an insert that was refused (statement or COMMIT raised) is in the table",
                                         {"session": sid, "key": r["key"], "failed": r["failed"], "final": final}))
                    break
            if not violations and any(len(v) > 1 for v in per_key.values()):
                violations.append(v_("duplicate-key/keyed", "two rows with one primary key", {"final": final}))
        inter = fp([(r[1], r[3]) for r in sim.log if len(r) > 3 and r[2] == "E"])
        return {
            "violations": violations, "digest": sim.digest(), "steps": sim.engine_events, "ops": len(history), "schedule": res["schedule"],
            "preemptions": res["preemptions"], "strategy": case["strategy"], "probes": probes, "faults": {"preemption": res["preemptions"]},
            "interleaving": inter, "fingerprint": fp([[(o["s"], o.get("tag")) for o in case["ops"]], inter]), "nontrivial": res["preemptions"] > 0,
            "state_hash": fp(final) if not violations else None,
        }
    finally:
        world.close()
        core.end()


def gen_recreate_vs_close(rng: Any) -> dict[str, Any]:
    """One session drops and re-creates its commented table while other sessions of the same database come and go:
    connect() and close() of a bystander must not touch what the first one has just declared."""
    k = rng.choice([2, 2, 2, 3])
    ops: list[dict[str, Any]] = []
    uid = rng.randint(100, 900)
    ops.append({"s": "s0", "k": "connect", "database": DB, "schema": "SC0", "tag": "connect"})
    t = f"{DB}.SC0.T"
    ops.append({"s": "s0", "k": "exec", "tag": "create_own", "t": t, "comment": f"c{uid}", "sql": f"CREATE TABLE T (id int, v varchar(10)) COMMENT = 'c{uid}'"})
    for r in range(rng.choice([1, 1, 1, 2])):
        ops.append({"s": "s0", "k": "exec", "tag": "drop_own", "t": t, "sql": "DROP TABLE T"})
        ops.append({"s": "s0", "k": "exec", "tag": "create_own", "t": t, "comment": f"c{uid + r + 1}", "sql": f"CREATE TABLE T (id int, v varchar(10)) COMMENT = 'c{uid + r + 1}'"})
    ops.append({"s": "s0", "k": "exec", "tag": "meta_all", "sql": f"SELECT table_schema, table_name, comment FROM {DB}.information_schema.tables WHERE table_name LIKE 'T%' AND table_schema LIKE 'SC%'"})
    for i in range(1, k):
        sid = f"s{i}"
        ops.append({"s": sid, "k": "connect", "database": DB, "schema": f"SC{i}", "tag": "connect"})
        if rng.random() < 0.5:
            ops.append({"s": sid, "k": "exec", "tag": "ctxq", "schema": f"SC{i}", "sql": "SELECT CURRENT_DATABASE(), CURRENT_SCHEMA()"})
        ops.append({"s": sid, "k": "close", "tag": "close"})
    return {
        "profile": NAME,
        "config": {"k": k, "own_schema": True, "pre": "none", "hazards": {"half_meta": False, "half_merge": False}, "scenario": "recreate-vs-close"},
        "strategy": rng.choice(["random", "pct", "pct", "pct"]),
        "pct_depth": rng.choice([2, 2, 3]),
        "pct_horizon": 4 * len(ops) + 12 * k,
        "sched_seed": rng.getrandbits(48),
        "ops": ops,
    }


def gen(rng: Any, prop: str, tier: str) -> dict[str, Any]:
    r0 = rng.random()
    if r0 < 0.1:
        return gen_keyed(rng)
    if r0 < 0.2:
        return gen_recreate_vs_close(rng)
    k = rng.choice([2, 2, 2, 3] + ([3, 4] if tier == "thorough" else []))  # deeper bound in the thorough tier
    # known-hazard switches (DESIGN.md section 4): off in ~85 % of runs so that model and system stay in lock-step
    hazards = {"half_meta": rng.random() < 0.15, "half_merge": rng.random() < 0.15}
    own_schema = rng.random() < 0.5
    pre = rng.choice(["db_schema", "all"]) if own_schema else rng.choice(["none", "none", "db", "db_schema"])
    use_meta = hazards["half_meta"] or rng.random() < 0.4
    use_comment = hazards["half_meta"] or not use_meta  # a commented CREATE is a multi-call statement
    use_merge = hazards["half_merge"] or rng.random() < 0.4
    use_read_shared = hazards["half_merge"] or not use_merge
    uid = [100]

    def fresh() -> int:
        uid[0] += 1
        return uid[0]

    kinds = ["ins_shared", "create_own", "ins_own", "read_own", "var", "ctxq"]
    weights = [5, 3, 2, 2, 2, 1]
    if use_meta:
        kinds.append("meta_all")
        weights.append(4)
    if use_merge:
        kinds.append("merge_shared")
        weights.append(8 if hazards["half_merge"] else 4)
    if use_read_shared:
        kinds.append("read_shared")
        weights.append(4)

    ops: list[dict[str, Any]] = []
    for i in range(k):
        sid = f"s{i}"
        schema = f"SC{i}" if own_schema else SC
        tname = "T" if own_schema else f"T{i}"
        ops.append({"s": sid, "k": "connect", "database": rng.choice([DB, DB.lower()]), "schema": rng.choice([schema, schema.lower()]), "tag": "connect"})
        have_shared = pre == "all"
        have_own = False
        mine: list[int] = []
        var_set = False
        for _ in range(rng.randint(1, 4 if k < 4 else 3)):
            kind = rng.choices(kinds, weights)[0]
            if kind in ("ins_shared", "read_shared", "merge_shared") and not have_shared:
                ops.append({"s": sid, "k": "exec", "tag": "create_shared",
                            "sql": f"CREATE TABLE IF NOT EXISTS {DB}.{SC}.SHARED (id int, who varchar(10))"})
                have_shared = True
            if kind in ("ins_own", "read_own") and not have_own:
                kind = "create_own"
            if kind == "create_own" and have_own:
                kind = "ins_own"
            if kind == "ins_own" and have_own and rng.random() < 0.2:
                # the own table is dropped and made again under the same name (its side-table rows are stale in between)
                ops.append({"s": sid, "k": "exec", "tag": "drop_own", "t": f"{DB}.{schema}.{tname}", "sql": f"DROP TABLE {tname}"})
                comment = f"c{fresh()}_{sid}" if use_comment else None
                ops.append({"s": sid, "k": "exec", "tag": "create_own", "t": f"{DB}.{schema}.{tname}", "comment": comment,
                            "sql": f"CREATE TABLE {tname} (id int, v varchar(10))" + (f" COMMENT = '{comment}'" if comment else "")})
                continue
            if kind == "create_own":
                comment = f"c_{sid}" if use_comment else None
                ops.append({"s": sid, "k": "exec", "tag": "create_own", "t": f"{DB}.{schema}.{tname}", "comment": comment,
                            "sql": f"CREATE TABLE {tname} (id int, v varchar(10))" + (f" COMMENT = '{comment}'" if comment else "")})
                have_own = True
            elif kind == "ins_shared":
                rows = [[fresh(), sid] for _ in range(rng.choice([1, 1, 2, 3]))]
                mine.extend(r[0] for r in rows)
                vals = ", ".join(f"({a}, '{b}')" for a, b in rows)
                ops.append({"s": sid, "k": "exec", "tag": "ins_shared", "rows": rows, "sql": f"INSERT INTO {DB}.{SC}.SHARED VALUES {vals}"})
            elif kind == "read_shared":
                ops.append({"s": sid, "k": "exec", "tag": "read_shared", "sql": f"SELECT id, who FROM {DB}.{SC}.SHARED"})
            elif kind == "merge_shared":
                upd = [[rng.choice(mine), sid + "+"]] if mine else []
                new = [[fresh(), sid + "+"] for _ in range(rng.choice([1, 2]))]
                mine.extend(r[0] for r in new)
                src = " UNION ALL ".join(f"SELECT {a} AS id, '{b}' AS who" for a, b in upd + new)
                ops.append({"s": sid, "k": "exec", "tag": "merge_shared", "rows": upd + new,
                            "sql": f"MERGE INTO {DB}.{SC}.SHARED USING ({src}) s ON SHARED.id = s.id "
                                   "WHEN MATCHED THEN UPDATE SET who = s.who "
                                   "WHEN NOT MATCHED THEN INSERT (id, who) VALUES (s.id, s.who)"})
            elif kind == "ins_own":
                r = fresh()
                ops.append({"s": sid, "k": "exec", "tag": "ins_own", "t": f"{DB}.{schema}.{tname}", "rows": [[r, sid]],
                            "sql": f"INSERT INTO {tname} VALUES ({r}, '{sid}')"})
            elif kind == "read_own":
                ops.append({"s": sid, "k": "exec", "tag": "read_own", "t": f"{DB}.{schema}.{tname}", "sql": f"SELECT id, v FROM {tname}"})
            elif kind == "meta_all":
                ops.append({"s": sid, "k": "exec", "tag": "meta_all",
                            "sql": f"SELECT table_schema, table_name, comment FROM {DB}.information_schema.tables "
                                   "WHERE table_name LIKE 'T%' AND table_schema LIKE 'SC%'"})
            elif kind == "var":
                if not var_set or rng.random() < 0.5:
                    v = fresh()
                    ops.append({"s": sid, "k": "exec", "tag": "setvar", "v": v, "sql": f"SET myvar = {v}"})
                    var_set = True
                else:
                    ops.append({"s": sid, "k": "exec", "tag": "usevar", "sql": "SELECT $myvar"})
            elif kind == "ctxq":
                ops.append({"s": sid, "k": "exec", "tag": "ctxq", "schema": schema, "sql": "SELECT CURRENT_DATABASE(), CURRENT_SCHEMA()"})
        if rng.random() < 0.3:
            ops.append({"s": sid, "k": "close", "tag": "close"})  # a session ends while the others go on
    strat = rng.choices(["random", "pct", "targeted", "serial", "stall"], [28, 28, 18, 6, 20])[0]
    return {
        "profile": NAME,
        "config": {"k": k, "own_schema": own_schema, "pre": pre, "hazards": hazards},
        "strategy": strat,
        "pct_depth": rng.choice([1, 2, 3]),
        "pct_horizon": 10 * k + 6 * len(ops),
        "sched_seed": rng.getrandbits(48),
        "ops": ops,
    }


# --------------------------------------------------------------------------- tiny model


def m_init(cfg: dict[str, Any]) -> dict[str, Any]:
    st: dict[str, Any] = {"tables": {}, "vars": {}, "ctx": {}}
    if cfg["pre"] == "all":
        st["tables"][f"{DB}.{SC}.SHARED"] = {"comment": None, "rows": {}}
    return st


def m_copy(st: dict[str, Any]) -> dict[str, Any]:
    return {
        "tables": {t: {"comment": v["comment"], "rows": dict(v["rows"])} for t, v in st["tables"].items()},
        "vars": dict(st["vars"]),
        "ctx": dict(st["ctx"]),
    }


def m_hash(st: dict[str, Any]) -> str:
    return json.dumps(st, sort_keys=True)


def m_step(st: dict[str, Any], op: dict[str, Any]) -> tuple[dict[str, Any], Any]:
    """Apply op to a copy of st; return (new state, expected rows or None when not compared)."""
    st = m_copy(st)
    tag = op.get("tag")
    sid = op["s"]
    shared = f"{DB}.{SC}.SHARED"
    if tag == "connect":
        st["ctx"][sid] = [op["database"].upper(), op["schema"].upper()]
        return st, ("ctx", op["database"].upper(), op["schema"].upper())
    if tag == "create_shared":
        st["tables"].setdefault(shared, {"comment": None, "rows": {}})
        return st, [["Table SHARED successfully created."]]
    if tag == "create_own":
        st["tables"][op["t"]] = {"comment": op["comment"], "rows": {}}
        return st, [[f"Table {op['t'].split('.')[-1]} successfully created."]]
    if tag == "drop_own":
        st["tables"].pop(op["t"], None)
        return st, [[f"{op['t'].split('.')[-1]} successfully dropped."]]
    if tag == "close":
        return st, None
    if tag == "ins_shared":
        for a, b in op["rows"]:
            st["tables"][shared]["rows"][str(a)] = b
        return st, [[len(op["rows"])]]
    if tag == "merge_shared":
        for a, b in op["rows"]:
            st["tables"][shared]["rows"][str(a)] = b
        return st, None
    if tag == "read_shared":
        return st, sorted([[int(a), b] for a, b in st["tables"][shared]["rows"].items()], key=sort_key)
    if tag == "ins_own":
        for a, b in op["rows"]:
            st["tables"][op["t"]]["rows"][str(a)] = b
        return st, [[len(op["rows"])]]
    if tag == "read_own":
        return st, sorted([[int(a), b] for a, b in st["tables"][op["t"]]["rows"].items()], key=sort_key)
    if tag == "meta_all":
        rows = []
        for t, v in st["tables"].items():
            d, s, n = t.split(".")
            if n.startswith("T"):
                rows.append([s, n, v["comment"]])
        return st, sorted(rows, key=sort_key)
    if tag == "setvar":
        st["vars"][sid] = op["v"]
        return st, [["Statement executed successfully."]]
    if tag == "usevar":
        return st, [[st["vars"].get(sid)]]
    if tag == "ctxq":
        return st, [st["ctx"][sid]]
    raise core.HarnessError(f"race model: unknown op tag {tag}")


def matches(expected: Any, out: dict[str, Any]) -> bool:
    if not out.get("ok"):
        return False
    if expected is None:
        return True
    if isinstance(expected, tuple) and expected[0] == "ctx":
        return out.get("database") == expected[1] and out.get("schema") == expected[2]
    return sorted(out.get("rows") or [], key=sort_key) == expected


def serial_order_search(history: list[dict[str, Any]], init: dict[str, Any], final_ok: Any) -> tuple[bool, dict[str, Any]]:
    """Is there a total order, consistent with program order and real-time precedence, under which
    the model reproduces every observed outcome and the final snapshot?"""
    sids = sorted({h["s"] for h in history})
    per = {s: [h for h in history if h["s"] == s] for s in sids}
    # need[s][j][t] = how many ops of session t must precede op j of session s (ret < inv)
    need: dict[str, list[dict[str, int]]] = {}
    for s in sids:
        need[s] = []
        for h in per[s]:
            need[s].append({t: sum(1 for p in per[t] if p["ret"] < h["inv"]) for t in sids if t != s})
    seen: set[tuple[tuple[int, ...], str]] = set()
    deepest = {"depth": -1, "stuck": []}
    total = len(history)

    def rec(pos: dict[str, int], st: dict[str, Any], depth: int) -> bool:
        key = (tuple(pos[s] for s in sids), m_hash(st))
        if key in seen:
            return False
        seen.add(key)
        if depth == total:
            return final_ok(st)
        stuck = []
        for s in sids:
            j = pos[s]
            if j >= len(per[s]):
                continue
            if any(pos[t] < c for t, c in need[s][j].items()):
                continue
            h = per[s][j]
            st2, exp = m_step(st, h["op"])
            if not matches(exp, h["out"]):
                stuck.append((h, exp))
                continue
            pos2 = dict(pos)
            pos2[s] = j + 1
            if rec(pos2, st2, depth + 1):
                return True
        if depth > deepest["depth"] and stuck:
            deepest["depth"] = depth
            deepest["stuck"] = stuck
        return False

    ok = rec({s: 0 for s in sids}, init, 0)
    return ok, deepest


# --------------------------------------------------------------------------- execution + oracle


def run(case: dict[str, Any]) -> dict[str, Any]:
    if case["config"].get("mode") == "keyed":
        return run_keyed(case)
    sim = core.begin()
    cfg = case["config"]
    world = World(sim)
    violations: list[dict[str, Any]] = []
    probes: dict[str, int] = {}
    try:
        # serial set-up by the root session (not scheduled, not part of the history)
        with sim.quiet():
            # NB: nothing here may touch the instance when pre == "none": its very first use then happens inside
            # the scheduled session threads (lazy initialisation is a race window too)
            if cfg["pre"] in ("db", "db_schema", "all"):
                setup = world.fs.connect(database=DB, schema=SC if cfg["pre"] != "db" else None)
                if cfg["pre"] == "all":
                    setup.cursor().execute(f"CREATE TABLE {DB}.{SC}.SHARED (id int, who varchar(10))")
        res = run_threaded(sim, world, case, case["ops"])
        history = res["history"]
        if res["deadlock"]:
            violations.append(v_("hang/deadlock", "every live session is blocked on a lock", {"blocked": res["blocked"]}))
        # probes
        probes["preempt_inside_op"] = res["preemptions"]
        conn_ops = [h for h in history if h["op"].get("tag") == "connect"]
        probes["connect_overlap"] = sum(
            1 for a in conn_ops for b in conn_ops if a["s"] < b["s"] and not (a["ret"] < b["inv"] or b["ret"] < a["inv"])
        )
        multi = [h for h in history if h["op"].get("tag") in ("create_own", "merge_shared")]
        reads = [h for h in history if h["op"].get("tag") in ("read_shared", "meta_all")]
        probes["read_overlaps_multistep"] = sum(
            1 for a in multi for b in reads if a["s"] != b["s"] and not (a["ret"] < b["inv"] or b["ret"] < a["inv"])
        )
        # (1) nothing raises: in every serial order every generated op succeeds
        if not violations:
            for h in history:
                o = h["out"]
                if not o.get("ok"):
                    sig = f"raises/{h['op'].get('tag')}/{o.get('exc')}" + (f"/{o['errno']}" if o.get("errno") else "")
                    violations.append(v_(sig, "an operation failed although it succeeds in every serial order",
                                         {"op": h["op"], "outcome": o, "overlapping": overlapping(h, history)}))
                    break
        # (2)+(3) serial-order search incl. final snapshot
        if not violations:
            final = final_snapshot(world)

            def final_ok(st: dict[str, Any]) -> bool:
                return model_snapshot(st) == final

            ok, deepest = serial_order_search(history, m_init(cfg), final_ok)
            if not ok:
                if deepest["stuck"]:
                    h, exp = deepest["stuck"][0]
                    relevant = {"meta_all": ("create_own",), "read_shared": ("merge_shared",)}.get(h["op"].get("tag"), ())
                    conc = sorted({x["op"].get("tag") for x in history if x["s"] != h["s"] and not (x["ret"] < h["inv"] or h["ret"] < x["inv"])
                                   and x["op"].get("tag") in relevant})
                    sig = f"no-serial-order/{h['op'].get('tag')}/{'+'.join(conc) or 'none'}"
                    detail = {"op": h["op"], "observed": h["out"], "one_expected": exp, "overlapping": overlapping(h, history)}
                else:
                    sig = "no-serial-order/final-state"
                    detail = {"final": final}
                violations.append(v_(sig, "no serial order of the operations explains the observed results and final state", detail))
        steps = sim.engine_events
        inter = fp([(r[1], r[3]) for r in sim.log if len(r) > 3 and r[2] == "E"])
        shape = fp([[(o["s"], o.get("tag")) for o in case["ops"]], inter])
        return {
            "violations": violations,
            "digest": sim.digest(),
            "steps": steps,
            "ops": len(history),
            "schedule": res["schedule"],
            "preemptions": res["preemptions"],
            "strategy": case["strategy"],
            "probes": probes,
            "faults": {"preemption": res["preemptions"]},
            "interleaving": inter,
            "fingerprint": shape,
            "nontrivial": res["preemptions"] > 0,
            "state_hash": fp(final_snapshot(world)) if not violations else None,
        }
    finally:
        world.close()
        core.end()


def v_(signature: str, clause: str, detail: Any) -> dict[str, Any]:
    return {"property": "C19", "signature": signature, "clause": clause, "detail": detail}


def overlapping(h: dict[str, Any], history: list[dict[str, Any]]) -> list[str]:
    return [f"{x['s']}:{x['op'].get('tag')}" for x in history if x["s"] != h["s"] and not (x["ret"] < h["inv"] or h["ret"] < x["inv"])]


def final_snapshot(world: World) -> dict[str, Any]:
    """Rows of every user table + table comments as the API reports them (quiet observer)."""
    snap = world.observe(with_sessions=False)
    out: dict[str, Any] = {}
    with world.sim.quiet():
        comments = {}
        if DB in snap["dbs"]:
            cur = world.fs.connect(database=DB).cursor()
            cur.execute(f"SELECT table_schema, table_name, comment FROM {DB}.information_schema.tables WHERE table_schema LIKE 'SC%'")
            comments = {f"{DB}.{r[0]}.{r[1]}": r[2] for r in cur.fetchall()}
    for t, rows in snap["rows"].items():
        out[t] = {"comment": comments.get(t), "rows": rows}
    return out


def model_snapshot(st: dict[str, Any]) -> dict[str, Any]:
    out = {}
    for t, v in st["tables"].items():
        out[t] = {"comment": v["comment"], "rows": sorted(norm_rows([[int(a), b] for a, b in v["rows"].items()]), key=sort_key)}
    return out
