"""Profile `server` (C17): the HTTP server answers exactly like the in-process fake.

N real snowflake.connector clients <-> in-process transport (S2) <-> the real Starlette app <-> fakesnow; a TWIN
in-process FakeSnow receives the same statement history directly.  Requests of different clients are
interleaved at statement level (op list order) or, in a share of the runs, pre-empted at transport and engine
events by the baton scheduler (clients then work on disjoint tables so the twin needs no serial order).
Fault ops: requests with a missing or unknown token at random points.
"""

from __future__ import annotations

import datetime as dt
import gzip
import json
import random
from typing import Any

from .. import core, transport
from ..runner import fp
from ..threaded import run_threaded
from ..world import World, exc_record, scratch_dir

NAME = "server"
PROPERTIES = ["C17"]

SPEC = {
    "runs": {"quick": 450, "thorough": 30000},
    "wall": {"quick": 600, "thorough": 7200},
    "chunk": 6,
    "level": "exploration",
    "technique": "deterministic simulation (twin worlds): real snowflake.connector clients over an in-process ASGI transport to the real server app, scheduled at statement or transport/engine-call granularity, with bad-token fault requests; every statement compared with a twin in-process connection",
    "level_text": (
        "1-3 real connector clients (shared, :isolated: and path-backed logins, with/without database/schema) drive the real Starlette app "
        "through an in-process transport; their requests are interleaved at statement level, in a share of the runs pre-empted at every "
        "transport exchange and engine call. Statements of every kind over a table of all column types (NULL in every type, pre-1970 and "
        "sub-second timestamps, TIME, 38-digit DECIMAL, TIMESTAMP_TZ, empty results), DML/DDL/USE/SET, failing statements; requests with "
        "a missing or unknown token are injected at random points. Per statement rows (values and Python types), description, rowcount and "
        "error (errno, sqlstate, message) are compared with a twin in-process connection; each login has its own context and variables; "
        "logins share data exactly when on the shared instance; a bad-token request gets 401 and leaves the session map untouched. Sampling, not proof."
    ),
    "level_note": "Trusted: the twin construction (server path and twin run the same fakesnow code below the HTTP layer); stubs: sockets/uvicorn/urllib3 pool (in-process transport), anyio thread pool (inline), token randomness (PRNG).",
    "rule": (
        "one evaluation = one seeded run (1-3 clients, 6-30 requests); non-trivial = at least 3 query requests of which one returns typed "
        "rows or an error, from >=1 login; distinct = hash of (login kinds, sequence of (client, statement kind))"
    ),
    "bounds": "1-3 clients, 6-30 requests, typed table of 0-8 rows x 11 column types",
    "components_real": ["snowflake.connector client (auth, request building, Arrow result decoding, error raising)", "starlette app/routing/request/response", "fakesnow.server handlers", "fakesnow/*", "pyarrow IPC", "duckdb engine"],
    "components_stubbed": ["sockets + uvicorn + urllib3 connection pool (in-process ASGI transport)", "anyio thread pool (inline on the client thread)", "secrets.token_urlsafe (PRNG)", "thread scheduling (baton)"],
    "assumptions": ["one request is handled to completion on the client's thread (no anyio worker threads)"],
    "mandatory_probes": {"any": ["transport_requests", "bad_token_request", "typed_rows", "error_statement", "isolated_login", "preempt_inside_op", "shared_table_select"]},
}

TYPED_COLS = [
    ("ID", "INT"), ("N", "NUMBER(38,0)"), ("DEC", "NUMBER(10,2)"), ("F", "FLOAT"), ("S", "VARCHAR(20)"), ("D", "DATE"),
    ("TS", "TIMESTAMP_NTZ"), ("TZ", "TIMESTAMP_TZ"), ("TM", "TIME"), ("B", "BOOLEAN"), ("V", "VARIANT"),
]
HAZARDS = ["number38_scale0"]


def _typed_rows(rng: Any, n: int, hz: dict[str, bool]) -> list[str]:
    out = []
    for i in range(n):
        vals = [str(10 + i)]
        for name, _ in TYPED_COLS[1:]:
            if rng.random() < 0.25:
                vals.append("NULL")
                continue
            vals.append({
                "N": rng.choice(["99999999999999999999999999999999999999", "-1", "0", "12345678901234567890"]) if hz["number38_scale0"]
                else rng.choice(["999999999999999999999999999999999999.99", "-1.50", "0.01", "123456789012345678.90"]),
                "DEC": f"{rng.randint(-999, 999)}.{rng.randint(0, 99):02d}",
                "F": rng.choice(["1.5", "-0.25", "1e10", "3.0"]),
                "S": "'" + rng.choice(["a", "b b", "", "ünï", "q''q"]) + "'",
                "D": f"'{rng.choice(['2024-02-29', '1969-12-31', '1900-01-01'])}'",
                "TS": f"'{rng.choice(['2024-02-29 12:34:56.789123', '1969-12-31 23:59:59.5', '2000-01-01 00:00:00', '1950-06-15 08:00:00.000001', '2024-02-29 12:34:56.000065', '1999-12-31 23:59:59.999999', '1969-12-31 23:59:59.999999', '2038-01-19 03:14:08.123457'])}'",
                "TZ": f"'{rng.choice(['2024-02-29 12:34:56.789 +0000', '1969-12-31 23:59:59.250 +0000', '2013-04-05 01:02:03.123456 +0000', '2024-02-29 12:34:56.000065 +0000', '1969-12-31 23:59:59.999999 +0000'])}'",
                "TM": f"'{rng.choice(['12:34:56', '00:00:01.5', '23:59:59.123456'])}'",
                "B": rng.choice(["TRUE", "FALSE"]),
                "V": f"PARSE_JSON('{rng.choice(['{\"k\": 1}', '[1, 2]', '7'])}')",
            }[name])
        out.append(", ".join(vals))
    return out


def gen(rng: Any, prop: str, tier: str) -> dict[str, Any]:
    hz = {h: rng.random() < 0.08 for h in HAZARDS}
    k = rng.choice([1, 2, 2, 3])
    threaded = k > 1 and rng.random() < 0.3
    clients = []
    for i in range(k):
        kind = rng.choices(["shared", "isolated", "path"], [7, 2, 1])[0] if not threaded else "shared"
        if kind == "path" and any(c["kind"] == "path" for c in clients):
            kind = "shared"
        clients.append({"id": f"c{i}", "kind": kind, "database": rng.choice(["DB1", "db1"]), "schema": f"S{i}" if threaded else rng.choice(["S1", "s1", "S2"])})
    ops: list[dict[str, Any]] = []
    for c in clients:
        ops.append({"s": c["id"], "k": "login", **{x: c[x] for x in ("kind", "database", "schema")}})
    n_rows = rng.choice([0, 1, 3, 8])
    uid = [1000]

    def fresh() -> int:
        uid[0] += 1
        return uid[0]

    have_typed: set[str] = set()
    shx = [False]
    own_tables: dict[str, list[str]] = {c["id"]: [] for c in clients}
    for _ in range(rng.randint(6, 30)):
        c = rng.choice(clients)
        cid = c["id"]
        shared_ok = c["kind"] == "shared" and not threaded
        if not threaded and own_tables[cid] and rng.random() < 0.08:
            # a transaction spanning several requests of one session, with a failing statement inside: the session's
            # transaction must survive the error exactly as it does in process
            t = rng.choice(own_tables[cid])
            ops.append({"s": cid, "k": "query", "sql": rng.choice(["BEGIN", "BEGIN TRANSACTION"]), "kind": "txn"})
            for _ in range(rng.randint(1, 4)):
                r = rng.random()
                if r < 0.4:
                    ops.append({"s": cid, "k": "query", "sql": f"INSERT INTO {t} VALUES ({fresh()}, 'x{fresh()}')", "kind": "dml"})
                elif r < 0.6:
                    ops.append({"s": cid, "k": "query", "sql": f"UPDATE {t} SET B = 'u{fresh()}' WHERE A > {uid[0] - rng.randint(1, 8)}", "kind": "dml"})
                elif r < 0.8:
                    ops.append({"s": cid, "k": "query", "kind": "error", "sql": rng.choice(["SELECT * FROM NO_SUCH_TABLE", f"SELECT NOPE FROM {t}", "SELECT $UNDEFINED_VAR"])})
                else:
                    ops.append({"s": cid, "k": "query", "sql": f"SELECT A, B FROM {t} ORDER BY A", "kind": "select"})
            ops.append({"s": cid, "k": "query", "sql": f"SELECT A, B FROM {t} ORDER BY A", "kind": "select"})
            ops.append({"s": cid, "k": "query", "sql": rng.choice(["COMMIT", "ROLLBACK"]), "kind": "txn"})
            ops.append({"s": cid, "k": "query", "sql": f"SELECT A, B FROM {t} ORDER BY A", "kind": "select"})
            continue
        kind = rng.choices(["typed_create", "typed_select", "create", "insert", "select", "update", "delete", "error", "var", "ctx", "bad_token", "empty", "use", "shx_replace", "shx_select", "shx_episode"],
                           [3 if cid not in have_typed else 0, 8 if cid in have_typed else 0, 3, 6, 5, 2, 2, 4, 2, 1, 2, 1, 1, 2 if shared_ok else 0, 4 if shared_ok and shx[0] else 0, 3 if shared_ok and sum(1 for x in clients if x["kind"] == "shared") >= 2 else 0])[0]
        q = None
        if kind == "typed_create":
            cols = ", ".join(f"{n} {t if n != 'N' or hz['number38_scale0'] else 'NUMBER(38,2)'}" for n, t in TYPED_COLS)
            ops.append({"s": cid, "k": "query", "sql": f"CREATE OR REPLACE TABLE TT_{cid} ({cols})", "kind": "ddl"})
            for r in _typed_rows(rng, n_rows, hz):
                ops.append({"s": cid, "k": "query", "sql": f"INSERT INTO TT_{cid} SELECT {r}", "kind": "insert1"})
            have_typed.add(cid)
            continue
        if kind == "typed_select":
            cols = rng.sample([n for n, _ in TYPED_COLS], rng.randint(1, 6))
            form = rng.random()
            if form < 0.12:
                # repeated column names (also of different types): values must stay with their position
                a, b = cols[0], rng.choice([n for n, _ in TYPED_COLS])
                q = f"SELECT ID, {a} AS X, {b} AS X, ID + 1 AS ID FROM TT_{cid} ORDER BY 1"
            elif form < 0.6:
                q = f"SELECT {', '.join(cols)} FROM TT_{cid} ORDER BY ID"
            elif form < 0.8:
                q = f"SELECT * FROM TT_{cid} WHERE ID >= {10 + rng.randint(0, 9)} ORDER BY ID"
            else:
                q = f"SELECT COUNT(*) AS C, MAX(DEC) AS M, MIN(TS) AS T FROM TT_{cid}"
            ops.append({"s": cid, "k": "query", "sql": q, "kind": "typed"})
        elif kind == "create":
            name = f"T{len(own_tables[cid])}_{cid}"
            own_tables[cid].append(name)
            ops.append({"s": cid, "k": "query", "sql": f"CREATE TABLE IF NOT EXISTS {name} (A INT, B VARCHAR(20))", "kind": "ddl"})
        elif kind in ("insert", "select", "update", "delete") and own_tables[cid]:
            t = rng.choice(own_tables[cid])
            if kind == "insert":
                rows = ", ".join(f"({fresh()}, 'v{fresh()}')" for _ in range(rng.choice([1, 2, 3])))
                ops.append({"s": cid, "k": "query", "sql": f"INSERT INTO {t} VALUES {rows}", "kind": "dml"})
            elif kind == "select":
                ops.append({"s": cid, "k": "query", "sql": rng.choice([f"SELECT A, B FROM {t} ORDER BY A", f"SELECT A, B FROM {t} ORDER BY A", f"SELECT A, A + 1 AS A, B AS A FROM {t} ORDER BY 1"]), "kind": "select"})
            elif kind == "update":
                ops.append({"s": cid, "k": "query", "sql": f"UPDATE {t} SET B = 'u{fresh()}' WHERE A > {uid[0] - rng.randint(1, 8)}", "kind": "dml"})
            else:
                ops.append({"s": cid, "k": "query", "sql": f"DELETE FROM {t} WHERE A < {1000 + rng.randint(1, 8)}", "kind": "dml"})
        elif kind == "error":
            ops.append({"s": cid, "k": "query", "kind": "error", "sql": rng.choice(["SELECT * FROM NO_SUCH_TABLE", "SELECT NOPE FROM INFORMATION_SCHEMA.TABLES", "CREATE SCHEMA DB9.S1", "SELECT NOSUCHFUNC(1)", "USE DATABASE DB9", "SELECT $UNDEFINED_VAR"])})
        elif kind == "var":
            if rng.random() < 0.6:
                ops.append({"s": cid, "k": "query", "sql": f"SET MYVAR = {fresh()}", "kind": "set"})
            else:
                ops.append({"s": cid, "k": "query", "sql": "SELECT $MYVAR AS V", "kind": "var"})
        elif kind == "ctx":
            ops.append({"s": cid, "k": "query", "sql": "SELECT CURRENT_DATABASE(), CURRENT_SCHEMA()", "kind": "ctx"})
        elif kind == "use" and not threaded:
            ops.append({"s": cid, "k": "query", "sql": f"USE SCHEMA {rng.choice(['S1', 'S2'])}", "kind": "use"})
        elif kind == "empty":
            ops.append({"s": cid, "k": "query", "sql": "SELECT 1 AS X WHERE 1 = 0", "kind": "select"})
        elif kind == "shx_replace":
            # a table shared by all logins of the shared instance whose column type keeps changing:
            # the byte-identical SELECT of another login must follow
            ty, val = rng.choice([("INT", "7"), ("NUMBER(10,2)", "12.34"), ("VARCHAR(10)", "'txt'"), ("TIMESTAMP_NTZ", "'2024-02-29 12:34:56.789'"), ("FLOAT", "1.5"), ("BOOLEAN", "TRUE"), ("DATE", "'1969-12-31'")])
            ops.append({"s": cid, "k": "query", "sql": f"CREATE OR REPLACE TABLE DB1.S1.SHX (A {ty})", "kind": "ddl"})
            ops.append({"s": cid, "k": "query", "sql": f"INSERT INTO DB1.S1.SHX SELECT {val}", "kind": "insert1"})
            shx[0] = True
        elif kind == "shx_episode":
            # login A reads the shared table, login B replaces it with another column type, A repeats the identical statement
            other = rng.choice([x for x in clients if x["kind"] == "shared" and x["id"] != cid])["id"]
            types = [("INT", "7"), ("NUMBER(10,2)", "12.34"), ("VARCHAR(10)", "'txt'"), ("TIMESTAMP_NTZ", "'2024-02-29 12:34:56.789'"), ("FLOAT", "1.5"), ("DATE", "'1969-12-31'")]
            (t1, v1), (t2, v2) = rng.sample(types, 2)
            ops.append({"s": other, "k": "query", "sql": f"CREATE OR REPLACE TABLE DB1.S1.SHX (A {t1})", "kind": "ddl"})
            ops.append({"s": other, "k": "query", "sql": f"INSERT INTO DB1.S1.SHX SELECT {v1}", "kind": "insert1"})
            ops.append({"s": cid, "k": "query", "sql": "SELECT A FROM DB1.S1.SHX", "kind": "shared_select"})
            ops.append({"s": other, "k": "query", "sql": f"CREATE OR REPLACE TABLE DB1.S1.SHX (A {t2})", "kind": "ddl"})
            ops.append({"s": other, "k": "query", "sql": f"INSERT INTO DB1.S1.SHX SELECT {v2}", "kind": "insert1"})
            ops.append({"s": cid, "k": "query", "sql": "SELECT A FROM DB1.S1.SHX", "kind": "shared_select"})
            shx[0] = True
        elif kind == "shx_select":
            ops.append({"s": cid, "k": "query", "sql": "SELECT A FROM DB1.S1.SHX", "kind": "shared_select"})
        elif kind == "bad_token":
            ops.append({"s": cid, "k": "bad_token", "how": rng.choice(["missing", "unknown", "garbage"])})
    return {
        "profile": NAME,
        "config": {"clients": clients, "hazards": hz, "threaded": threaded},
        "strategy": rng.choice(["random", "pct", "targeted"]) if threaded else "serial-list",
        "pct_depth": 2, "pct_horizon": 40 * k, "sched_seed": rng.getrandbits(48),
        "ops": ops,
    }


# --------------------------------------------------------------------------- execution


def nval(v: Any) -> Any:
    """Value + Python type; tz-aware datetimes are compared by instant and offset, not by tzinfo class."""
    if isinstance(v, dt.datetime) and v.tzinfo is not None:
        return {"t": "datetime_tz", "v": v.astimezone(dt.timezone.utc).replace(tzinfo=None).isoformat(), "off": v.utcoffset().total_seconds()}
    from ..world import norm

    return norm(v)


def run_query(cur_factory: Any, sql: str) -> dict[str, Any]:
    try:
        cur = cur_factory()
        cur.execute(sql)
        rows = cur.fetchall()
        try:
            desc = [[d.name, d.type_code, d.precision, d.scale] for d in (cur.description or [])]
        except BaseException as e:  # noqa: BLE001
            desc = ["!" + type(e).__name__]
        return {"ok": True, "rows": [[nval(x) for x in r] for r in rows], "desc": desc, "rowcount": cur.rowcount}
    except BaseException as e:  # noqa: BLE001
        if isinstance(e, (core.HarnessError, core.SimCrash, KeyboardInterrupt)):
            raise
        rec = exc_record(e)
        raw = getattr(e, "raw_msg", None) or rec["msg"]
        rec["raw"] = str(raw)
        return rec


class ServerWorld(World):
    """apply(): login / query / bad_token through the transport; the twin is driven alongside."""

    def __init__(self, sim: core.Sim, case: dict[str, Any]) -> None:
        from fakesnow.instance import FakeSnow

        self.sim = sim
        self.case = case
        self.scratch = None
        self.fs_opts = {}
        self.conns: dict[str, Any] = {}
        self.cursors = {}
        self.twins: dict[str, Any] = {}
        self.twin_shared = FakeSnow()
        self.twin_instances = [self.twin_shared]
        self.dirs: list[str] = []
        self.mismatch: dict[str, Any] | None = None
        self.counts = {"bad_token_request": 0, "typed_rows": 0, "error_statement": 0, "isolated_login": 0, "queries": 0}
        self.fs = self.twin_shared

    def apply(self, op: dict[str, Any]) -> dict[str, Any]:
        from fakesnow.instance import FakeSnow
        import fakesnow.server as srv

        k, cid = op["k"], op["s"]
        if self.mismatch is not None:
            return {"ok": True, "skipped": True}
        if k == "login":
            path = None
            if op["kind"] == "isolated":
                path = ":isolated:"
                self.counts["isolated_login"] += 1
            elif op["kind"] == "path":
                d = scratch_dir(f"srv-{id(self)}-{cid}")
                self.dirs.append(d)
                path = d
            try:
                self.conns[cid] = transport.client_connect(op["database"], op["schema"], path)
            except BaseException as e:  # noqa: BLE001
                self.mismatch = {"signature": f"login-raises/{type(e).__name__}", "clause": "login failed", "detail": {"op": op, "error": exc_record(e)}}
                return {"ok": False}
            with self.sim.quiet():
                if op["kind"] == "shared":
                    tw = self.twin_shared
                elif op["kind"] == "isolated":
                    tw = FakeSnow()
                    self.twin_instances.append(tw)
                else:
                    d2 = scratch_dir(f"srvtwin-{id(self)}-{cid}")
                    self.dirs.append(d2)
                    tw = FakeSnow(db_path=d2)
                    self.twin_instances.append(tw)
                self.twins[cid] = tw.connect(database=op["database"], schema=op["schema"])
            return {"ok": True}
        if cid not in self.conns:
            return {"ok": True, "skipped": True}
        if k == "query":
            self.counts["queries"] += 1
            a = run_query(self.conns[cid].cursor, op["sql"])
            with self.sim.quiet():
                b = run_query(self.twins[cid].cursor, op["sql"])
            if a.get("ok") and a.get("rows") and op.get("kind") == "typed":
                self.counts["typed_rows"] += 1
            if not b.get("ok"):
                self.counts["error_statement"] += 1
            self.compare(op, a, b)
            return {"ok": a.get("ok"), "exc": a.get("exc")}
        if k == "bad_token":
            self.counts["bad_token_request"] += 1
            before = dict(srv.sessions)
            headers = {"Content-Type": "application/json", "Content-Encoding": "gzip"}
            if op["how"] == "unknown":
                headers["Authorization"] = 'Snowflake Token="nosuchtoken0000"'
            elif op["how"] == "garbage":
                headers["Authorization"] = "x"
            body = gzip.compress(json.dumps({"sqlText": "CREATE TABLE DB1.S1.SHOULD_NOT_EXIST (A INT)"}).encode())
            status, _, content = transport.asgi_call("POST", "http://localhost:1/queries/v1/query-request?requestId=x", headers, body)
            after = dict(srv.sessions)
            if status != 401:
                self.mismatch = {"signature": f"bad-token/status={status}/{op['how']}", "clause": "a request with a missing or unknown token is refused with 401",
                                 "detail": {"op": op, "status": status, "body": content[:200].decode("utf-8", "replace")}}
            elif any(after.get(t) is not c for t, c in before.items()) or (not self.case["config"]["threaded"] and set(after) != set(before)):
                self.mismatch = {"signature": f"bad-token/session-map-changed/{op['how']}", "clause": "a refused request touches no session", "detail": {"op": op}}
            return {"ok": True}
        raise core.HarnessError(f"server world: unknown op {k}")

    def compare(self, op: dict[str, Any], a: dict[str, Any], b: dict[str, Any]) -> None:
        kind = op.get("kind", "?")
        if a.get("ok") != b.get("ok"):
            self.mismatch = {"signature": f"outcome-differs/{kind}/server={'ok' if a.get('ok') else a.get('exc')}/twin={'ok' if b.get('ok') else b.get('exc')}",
                             "clause": "success/failure must be the same through the server and in process", "detail": {"sql": op["sql"], "server": _cut(a), "twin": _cut(b)}}
            return
        if not a.get("ok"):
            ka = [a.get("exc"), a.get("errno"), a.get("sqlstate")]
            kb = [b.get("exc"), b.get("errno"), b.get("sqlstate")]
            if ka != kb:
                self.mismatch = {"signature": f"error-differs/{kind}/server={ka[1]}/twin={kb[1]}", "clause": "same error (errno, sqlstate) through the server",
                                 "detail": {"sql": op["sql"], "server": _cut(a), "twin": _cut(b)}}
                return
            core_b = str(b.get("raw", "")).split("): ", 1)[-1].strip()
            if core_b and core_b[:60] not in str(a.get("msg", "")) + str(a.get("raw", "")):
                self.mismatch = {"signature": f"error-message-differs/{kind}", "clause": "same error message through the server", "detail": {"sql": op["sql"], "server": _cut(a), "twin": _cut(b)}}
            return
        if a["rows"] != b["rows"]:
            col = None
            for ra, rb in zip(a["rows"], b["rows"]):
                for j, (x, y) in enumerate(zip(ra, rb)):
                    if x != y and col is None:
                        col = (j, x, y)
            what = "count" if len(a["rows"]) != len(b["rows"]) else _vclass(col[1], col[2]) if col else "?"
            self.mismatch = {"signature": f"rows-differ/{kind}/{what}", "clause": "same rows (values and Python types) through the server",
                             "detail": {"sql": op["sql"], "first_difference": col, "server_rows": a["rows"][:3], "twin_rows": b["rows"][:3], "desc": b.get("desc")}}
            return
        if a["desc"] != b["desc"]:
            self.mismatch = {"signature": f"description-differs/{kind}", "clause": "same description through the server", "detail": {"sql": op["sql"], "server": a["desc"], "twin": b["desc"]}}
            return
        if a["rowcount"] != b["rowcount"]:
            self.mismatch = {"signature": f"rowcount-differs/{kind}", "clause": "same rowcount through the server", "detail": {"sql": op["sql"], "server": a["rowcount"], "twin": b["rowcount"]}}

    def close(self) -> None:
        import shutil

        with self.sim.quiet():
            for c in self.conns.values():
                try:
                    c.close()
                except BaseException:  # noqa: BLE001, S110
                    pass
            for tw in self.twin_instances:
                try:
                    tw.duck_conn.close()
                except BaseException:  # noqa: BLE001, S110
                    pass
        for d in self.dirs:
            shutil.rmtree(d, ignore_errors=True)


def _cut(x: dict[str, Any]) -> dict[str, Any]:
    return {k: (v[:3] if isinstance(v, list) else v) for k, v in x.items()}


def _vclass(x: Any, y: Any) -> str:
    def c(v: Any) -> str:
        if v is None:
            return "None"
        if isinstance(v, dict):
            return str(v.get("t"))
        return type(v).__name__

    return f"server={c(x)}/twin={c(y)}"


def run(case: dict[str, Any]) -> dict[str, Any]:
    transport.install()
    sim = core.begin()
    transport.reset(random.Random(case.get("sched_seed", 0)))
    w = ServerWorld(sim, case)
    try:
        if case["strategy"] == "serial-list":
            res: dict[str, Any] = {"schedule": None, "preemptions": 0}
            n = 0
            for op in case["ops"]:
                sim.set_session(op["s"])
                sim.note(sim.tick(), op["s"], op["k"], op.get("kind"))
                w.apply(op)
                n += 1
                if w.mismatch:
                    break
            sim.set_session("main")
        else:
            res = run_threaded(sim, w, case, case["ops"])
            n = len(res["history"])
        import fakesnow.server as srv

        violation = None
        if w.mismatch:
            violation = {"property": "C17", **w.mismatch}
        elif len(srv.sessions) != len(w.conns):
            violation = {"property": "C17", "signature": "session-map-size", "clause": "one server session per login", "detail": {"sessions": len(srv.sessions), "logins": len(w.conns)}}
        probes = dict(w.counts)
        probes["transport_requests"] = sim.probes.get("transport_requests", 0)
        probes["preempt_inside_op"] = res["preemptions"]
        probes["shared_table_select"] = sum(1 for o in case["ops"] if o.get("kind") == "shared_select")
        kinds = [(o["s"], o["k"], o.get("kind")) for o in case["ops"]]
        out = {
            "violations": [violation] if violation else [],
            "digest": sim.digest(),
            "steps": sim.engine_events + probes["transport_requests"],
            "ops": n,
            "probes": probes,
            "preemptions": res["preemptions"],
            "faults": {"bad_token_request": w.counts["bad_token_request"], "failing_statement": w.counts["error_statement"], "preemption": res["preemptions"]},
            "strategy": case["strategy"],
            "fingerprint": fp([[c["kind"] for c in case["config"]["clients"]], kinds, res["schedule"]]),
            "interleaving": fp(res["schedule"] or [o["s"] for o in case["ops"]]),
            "nontrivial": w.counts["queries"] >= 3 and (w.counts["typed_rows"] + w.counts["error_statement"] > 0),
        }
        if res["schedule"] is not None:
            out["schedule"] = res["schedule"]
        return out
    finally:
        w.close()
        core.end()
