"""Profile `cursor` (C05, C06): fetch calls hand out every row once, in order, at full width;
cursor.description matches the result of every executed statement.

The simulated clients are CURSORS: 1-3 per connection (tuple and dict), 1-2 connections.  Cursors of one
connection share its one DuckDB connection, so a cursor's fetch sequence is interrupted by executes,
description reads and fetches on sibling cursors and by the other connection's statements (statement-level
schedule = the op list order).  Oracle: per-cursor list + index model (exactly-once, ordering), consistency of
description with the values fetched / declared types, reads of description change nothing.
"""

from __future__ import annotations

import datetime as dt
import decimal
from typing import Any

from .. import core
from ..runner import fp
from ..world import World, exc_record, norm, norm_rows

NAME = "cursor"
PROPERTIES = ["C05", "C06"]
DB, SC = "DB1", "S1"

# column name, declared type, (type_code, precision, scale) expected in description, python class name of values
COLS = [
    ("ID", "INT", (0, 38, 0), "int"),
    ("N", "NUMBER(10,2)", (0, 10, 2), "Decimal"),
    ("F", "FLOAT", (1, None, None), "float"),
    ("S", "VARCHAR(20)", (2, None, None), "str"),
    ("D", "DATE", (3, None, None), "date"),
    ("TS", "TIMESTAMP_NTZ", (8, None, None), "datetime"),
    ("TZ", "TIMESTAMP_TZ", (7, None, None), "datetime_tz"),
    ("TM", "TIME", (12, None, None), "time"),
    ("B", "BOOLEAN", (13, None, None), "bool"),
    ("BI", "BINARY", (11, None, None), "bytes"),
    ("V", "VARIANT", (5, None, None), "str"),
]
COLMAP = {c[0]: c for c in COLS}

_BASE = {
    "runs": {"quick": 700, "thorough": 40000},
    "wall": {"quick": 600, "thorough": 7200},
    "chunk": 10,
    "level": "exploration",
    "bounds": "1-2 connections x 1-3 cursors, 10-50 ops, results of 0-12 rows x 1-5 columns over 11 column types",
    "components_real": ["fakesnow/*", "sqlglot", "duckdb engine (in-memory)", "pyarrow", "pandas (fetch_pandas_all)"],
    "components_stubbed": ["caller threads (one thread drives the cursors in the scheduled op order)"],
    "assumptions": ["cursors of one connection are driven from one thread (sharing a connection between threads is outside the properties)"],
}

SPECS = {
    "C05": dict(
        _BASE,
        technique="deterministic simulation: seeded interleavings of fetch/execute/arraysize operations over sibling cursors and connections, checked against a per-cursor list+index model (exactly-once, in order, full width)",
        level_text=(
            "Seeded search over sequences of fetchone / fetchmany(k) / fetchmany() under changing arraysize / fetchall / fetch_pandas_all / "
            "rowcount / re-execute / fetch-before-execute on 1-3 tuple and dict cursors of 1-2 connections, interleaved with each other. "
            "Per cursor, everything handed out since the last execute must be a prefix of the result in order, nothing twice, then []/None "
            "for ever; tuple width = number of result columns (also with repeated names); dict rows carry the same values under description "
            "names; fetch_pandas_all and rowcount agree. Sampling, not proof."
        ),
        level_note="Trusted: the list+index model; the reference rows of a query are its first column as generated (independent of fakesnow) plus the remaining values as returned by a quiet fetchall of a twin cursor (value conversion itself is C01's subject).",
        rule=(
            "one evaluation = one seeded history (10-50 ops); non-trivial = at least 4 fetch operations on a result of >=2 rows with at least "
            "one sibling/foreign operation between two fetches of the same cursor; distinct = hash of the sequence of (cursor, op kind)"
        ),
        mandatory_probes={"any": ["fetch_interrupted_by_sibling", "fetch_past_end", "fetch_before_execute", "dup_column_names", "fetchmany_default_size", "pandas", "dict_cursor_fetch", "fetch_after_status_statement"]},
    ),
    "C06": dict(
        _BASE,
        technique="deterministic simulation: seeded statement histories on sibling cursors with description reads at random points of the fetch sequence and foreign DDL in between, checked for availability, shape, type consistency and side-effect freedom",
        level_text=(
            "Same machine as C05 plus DDL/DML/transaction/USE/SET/SHOW/DESCRIBE/seeded-RANDOM statements and another session doing DDL "
            "between a cursor's execute and its description read. After every successful execute, at any point of the fetch sequence: "
            "description is available, has one entry per result column in order, names equal the DictCursor keys, type code / precision / "
            "scale agree with the Python types of the fetched values and the declared column types, reading it changes neither the pending "
            "rows, the data nor the session; describe(q) equals description after execute(q) and executes nothing. Sampling, not proof."
        ),
        level_note="Trusted: the declared-type table of the generator (11 column types) and the Python-class <-> type-code mapping of the property statement.",
        rule=(
            "one evaluation = one seeded history (10-50 ops); non-trivial = at least 2 description reads of which one happened after a "
            "partial fetch or after a sibling/foreign statement; distinct = hash of the sequence of (cursor, op kind, statement kind)"
        ),
        mandatory_probes={"any": ["description_mid_fetch", "description_after_nonquery", "describe_call", "description_after_foreign_stmt"]},
    ),
}


def spec_for(prop: str) -> dict[str, Any]:
    return SPECS[prop]


# --------------------------------------------------------------------------- generation

HAZARDS_C05: list[str] = []
HAZARDS_C06 = ["desc_foreign_ddl", "desc_merge_in_txn"]


def _rows(rng: Any, n: int) -> list[dict[str, Any]]:
    """Generated table content: python-side description of each row (sql literal per column)."""
    rows = []
    for i in range(n):
        ident = 10 + i
        r: dict[str, str] = {"ID": str(ident)}
        for name, *_ in COLS[1:]:
            if rng.random() < 0.2:
                r[name] = "NULL"
                continue
            r[name] = {
                "N": f"{rng.randint(-999, 999)}.{rng.randint(0, 99):02d}",
                "F": rng.choice(["1.5", "-0.25", "3.0", "1e10"]),
                "S": "'" + rng.choice(["a", "b b", "zz", "", "q''q"]) + "'",
                "D": f"'{rng.choice(['2024-02-29', '1969-12-31', '2000-01-01'])}'",
                "TS": f"'{rng.choice(['2024-02-29 12:34:56.789', '1969-12-31 23:59:59', '2000-01-01 00:00:00'])}'",
                "TZ": f"'{rng.choice(['2024-02-29 12:34:56.789 +0000', '1969-12-31 23:59:59 +0000'])}'",
                "TM": f"'{rng.choice(['12:34:56', '00:00:01', '23:59:59'])}'",
                "B": rng.choice(["TRUE", "FALSE"]),
                "BI": f"'{rng.choice(['00', 'CAFE', 'FF00'])}'::BINARY",
                "V": f"PARSE_JSON('{rng.choice(['{\"k\": 1}', '[1, 2]', '\"x\"', '7'])}')",
            }[name]
        rows.append(r)
    return rows


def _query(rng: Any, n_rows: int, dict_cursor: bool, hz: dict[str, bool]) -> dict[str, Any]:
    """A SELECT over TT ordered by ID; returns sql, the select items and the expected ids."""
    k = rng.randint(1, 5)
    items: list[dict[str, Any]] = []
    names: list[str] = []
    first = {"expr": "ID", "col": "ID", "name": "ID"}
    items.append(first)
    names.append("ID")
    for _ in range(k - 1):
        c = rng.choice(COLS)[0]
        r = rng.random()
        if r < 0.55:
            it = {"expr": c, "col": c, "name": c}
        elif r < 0.75:
            alias = rng.choice(['"quoted Name"', '"lower"', "ALIAS1", "alias2"])
            it = {"expr": f"{c} AS {alias}", "col": c, "name": alias.strip('"') if alias.startswith('"') else alias.upper()}
        elif r < 0.8:
            # text that only looks like statement structure: a semicolon / comment marker inside a literal or a quoted alias
            lit, alias = rng.choice([("'semi;colon'", '"k;v"'), ("'dash--dash'", "LIT1"), ("'a;b;c'", "LIT2"), ("'/* x */'", '"al;ias"')])
            it = {"expr": f"{lit} AS {alias}", "col": None, "name": alias.strip('"') if alias.startswith('"') else alias, "cls": "str", "tc": (2, None, None)}
        elif r < 0.86:
            it = {"expr": "ID + 1", "col": None, "name": None, "cls": "int", "tc": (0, None, 0)}
        elif r < 0.93:
            # un-aliased expressions whose engine-made name depends on how the SQL text is rendered
            it = {"expr": rng.choice(["ROW_NUMBER() OVER (ORDER BY ID)", "DATEDIFF(day, '2020-01-01'::DATE, '2020-01-03'::DATE)", "COUNT(*) OVER (PARTITION BY ID ORDER BY ID)"]), "col": None, "name": None, "cls": "int", "tc": None}
        else:
            it = {"expr": "UPPER(S)", "col": None, "name": None, "cls": "str", "tc": (2, None, None)}
        nm = it["name"] if it["name"] is not None else "?" + it["expr"]
        if nm in names and dict_cursor:
            continue  # repeated names only on tuple cursors (a dict cannot hold both)
        items.append(it)
        names.append(nm)
    lo = rng.choice([0, 0, 0, 3, 99])  # 99 -> empty result
    hi = rng.choice([99, 99, 14])
    sql = f"SELECT {', '.join(i['expr'] for i in items)} FROM {DB}.{SC}.TT WHERE ID >= {10 + lo} AND ID < {10 + hi} ORDER BY ID"
    ids = [10 + i for i in range(n_rows) if lo <= i < hi]
    return {"sql": sql, "items": items, "ids": ids, "dup": len(set(n for n in names)) < len(names)}


def gen(rng: Any, prop: str, tier: str) -> dict[str, Any]:
    hz = {h: rng.random() < 0.08 for h in HAZARDS_C05 + HAZARDS_C06}
    hz["_nop"] = rng.random() < 0.3  # not a hazard: the instance is configured with nop_regexes
    n_rows = rng.choice([0, 1, 2, 5, 8, 12])
    rows = _rows(rng, n_rows)
    two = rng.random() < 0.6
    cursors = [("a", 0, False), ("a", 1, True)] + ([("a", 2, False)] if rng.random() < 0.5 else [])
    if two:
        cursors.append(("b", 0, rng.random() < 0.3))
    ops: list[dict[str, Any]] = []
    executed: set[tuple[str, int]] = set()
    in_txn: dict[str, bool] = {}
    extra_cols = [0]
    n_ops = rng.randint(10, 50)
    want_c06 = prop == "C06" or rng.random() < 0.3
    paramstyle = rng.choice(["pyformat", "pyformat", "qmark"])
    ph = "?" if paramstyle == "qmark" else "%s"
    for _ in range(n_ops):
        s, c, is_dict = rng.choice(cursors)
        key = (s, c)
        kinds = ["execute", "fetchone", "fetchmany", "fetchmany_default", "fetchall", "arraysize", "rowcount", "pandas", "description"]
        weights = [5 if key in executed else 14, 8, 8, 4, 3, 3, 2, 1, 6 if want_c06 else 2]
        if want_c06:
            kinds += ["nonquery", "describe", "foreign_ddl", "episode"]
            weights += [5, 2, 2 if two else 0, 2 if two else 0]
        kind = rng.choices(kinds, weights)[0]
        base = {"s": s, "cur": c, "dict": is_dict}
        def star() -> dict[str, Any]:
            return {"sql": f"SELECT * FROM {DB}.{SC}.TT ORDER BY ID", "ids": [10 + i for i in range(n_rows)], "dup": False, "star": True,
                    "items": [{"expr": c[0], "col": c[0], "name": c[0]} for c in COLS] + [{"expr": "?", "col": None, "name": None, "tc": (0, None, 0)} for _ in range(extra_cols[0])]}

        if kind == "episode":
            # the same statement text executed twice on one cursor with a change of its result shape in between
            ops.append({**base, "k": "execute", **star()})
            ops.append({**base, "k": "description"})
            if rng.random() < 0.5:
                ops.append({**base, "k": "fetchmany", "n": 2})
            if not any(in_txn.values()):
                extra_cols[0] += 1
                ops.append({"s": "b", "cur": 1, "dict": False, "k": "foreign", "alter_tt": True, "sql": f"ALTER TABLE {DB}.{SC}.TT ADD COLUMN EXTRA{extra_cols[0]} INT"})
            ops.append({**base, "k": "execute", **star()})
            ops.append({**base, "k": "description"})
            executed.add(key)
            continue
        if kind == "execute":
            q = _query(rng, n_rows, is_dict, hz)
            if want_c06 and rng.random() < 0.3:
                q = star()
            elif rng.random() < 0.25 and " WHERE ID >= " in q["sql"]:
                # the same query with a bound parameter
                head, rest = q["sql"].split(" WHERE ID >= ", 1)
                lo_txt, tail = rest.split(" ", 1)
                q = dict(q, sql=f"{head} WHERE ID >= {ph} {tail}", params=[int(lo_txt)])
            ops.append({**base, "k": "execute", **q})
            executed.add(key)
        elif kind == "fetchone":
            ops.append({**base, "k": "fetchone"})
        elif kind == "fetchmany":
            ops.append({**base, "k": "fetchmany", "n": rng.choice([1, 2, 3, 5, 20])})
        elif kind == "fetchmany_default":
            ops.append({**base, "k": "fetchmany", "n": None})
        elif kind == "fetchall":
            ops.append({**base, "k": "fetchall"})
        elif kind == "arraysize":
            ops.append({**base, "k": "arraysize", "n": rng.choice([1, 2, 3, 7])})
        elif kind == "rowcount":
            ops.append({**base, "k": "rowcount"})
        elif kind == "pandas":
            ops.append({**base, "k": "pandas"})
        elif kind == "description":
            ops.append({**base, "k": "description"})
        elif kind == "describe":
            if want_c06 and rng.random() < 0.25:
                ops.append({**base, "k": "rng_episode", "how": rng.choice(["describe", "describe", "description"]), "seed": rng.randint(1, 99)})
                continue
            q = _query(rng, n_rows, is_dict, hz)
            ops.append({**base, "k": "describe", **q})
        elif kind == "nonquery":
            nq = _nonquery(rng, hz, in_txn.get(s, False), any(in_txn.values()))
            if nq["kind"] == "insert" and rng.random() < 0.5:
                nq = dict(nq, sql=f"INSERT INTO {DB}.{SC}.SIDE VALUES ({ph})", params=[rng.randint(1, 99)], kind="insert_params")
            if nq["kind"] == "begin":
                in_txn[s] = True
            elif nq["kind"] in ("commit", "rollback"):
                in_txn[s] = False
            ops.append({**base, "k": "nonquery", **nq})
            executed.add(key)
        elif kind == "foreign_ddl":
            if rng.random() < 0.5 and not any(in_txn.values()):
                # changes the shape of SELECT * FROM TT: a later execute of the same text must be described afresh
                extra_cols[0] += 1
                ops.append({"s": "b", "cur": 1, "dict": False, "k": "foreign", "alter_tt": True, "sql": f"ALTER TABLE {DB}.{SC}.TT ADD COLUMN EXTRA{extra_cols[0]} INT"})
            else:
                ops.append({"s": "b", "cur": 1, "dict": False, "k": "foreign", "sql": rng.choice([
                    f"CREATE OR REPLACE TABLE {DB}.{SC}.OTHER (X INT)", f"INSERT INTO {DB}.{SC}.SIDE VALUES ({rng.randint(1, 9)})"])})
    return {"profile": NAME, "config": {"hazards": hz, "rows": rows, "two": two, "paramstyle": paramstyle, "nop": hz.get("_nop", False)}, "strategy": "serial", "ops": ops}


def _nonquery(rng: Any, hz: dict[str, bool], in_txn: bool = False, any_txn: bool = False) -> dict[str, Any]:
    """Statements of the other kinds (C06): sql + expected result columns where the property lets us know them."""
    pool: list[dict[str, Any]] = [
        {"sql": f"INSERT INTO {DB}.{SC}.SIDE VALUES ({rng.randint(1, 99)})", "cols": ["number of rows inserted"], "kind": "insert"},
        {"sql": f"UPDATE {DB}.{SC}.SIDE SET X = X + 1 WHERE X > {rng.randint(1, 99)}", "cols": ["number of rows updated", "number of multi-joined rows updated"], "kind": "update"},
        {"sql": f"DELETE FROM {DB}.{SC}.SIDE WHERE X = {rng.randint(100, 200)}", "cols": ["number of rows deleted"], "kind": "delete"},
        {"sql": f"CREATE OR REPLACE TABLE {DB}.{SC}.TMP{rng.randint(1, 3)} (A INT)", "cols": ["status"], "kind": "create_table"},
        {"sql": "SET MYVAR = 5", "cols": ["status"], "kind": "set"},
        {"sql": f"COMMENT ON TABLE {DB}.{SC}.SIDE IS 'c{rng.randint(1, 9)}'", "cols": ["status"], "kind": "comment_on"},
        {"sql": f"ALTER TABLE {DB}.{SC}.SIDE SET COMMENT = 'a{rng.randint(1, 9)}'", "cols": ["status"], "kind": "set_comment"},
        {"sql": f"ALTER TABLE {DB}.{SC}.SIDE CLUSTER BY (X)", "cols": ["status"], "kind": "cluster_by"},
        {"sql": f"DESCRIBE TABLE {DB}.{SC}.SIDE", "cols": None, "kind": "describe_table"},
    ]
    if True:
        pool += [
            {"sql": "COMMIT", "cols": ["status"], "kind": "commit"} if in_txn else {"sql": "BEGIN", "cols": ["status"], "kind": "begin"},
            {"sql": "COMMIT", "cols": ["status"], "kind": "commit"},
            {"sql": "ROLLBACK", "cols": ["status"], "kind": "rollback"},
            {"sql": f"USE SCHEMA {DB}.{SC}", "cols": ["status"], "kind": "use"},
            {"sql": f"TRUNCATE TABLE {DB}.{SC}.SIDE", "cols": ["status"], "kind": "truncate"},
        ]
    if True:
        pool.append({"sql": f"MERGE INTO {DB}.{SC}.SIDE USING (SELECT {rng.randint(1, 99)} AS X) src ON SIDE.X = src.X WHEN NOT MATCHED THEN INSERT (X) VALUES (src.X)", "cols": None, "kind": "merge"})
    if True:
        pool.append({"sql": "SELECT RANDOM(42) AS R", "cols": ["R"], "kind": "random"})
    if True:
        pool += [{"sql": f"SHOW TABLES IN SCHEMA {DB}.{SC}", "cols": None, "kind": "show"}, {"sql": "SHOW SCHEMAS", "cols": None, "kind": "show"}]
    if hz.get("_nop"):
        # the instance no-ops CALL statements (nop_regexes): a no-op'd statement has the status row as its result
        pool += [{"sql": f"CALL PROC{rng.randint(1, 3)}()", "cols": ["status"], "kind": "nop"}] * 3
    if any_txn:
        # DDL - and UPDATE/DELETE of the shared rows - next to an open transaction of any session could be a write-write conflict: outside the properties
        # (a MERGE inside the session's own transaction: known finding, description after ROLLBACK re-reads the helper table)
        pool = [x for x in pool if x["kind"] not in ("create_table", "truncate", "comment_on", "set_comment", "cluster_by", "update", "delete") and (x["kind"] != "merge" or not in_txn or hz["desc_merge_in_txn"])]
    return rng.choice(pool)


# --------------------------------------------------------------------------- execution + oracle


def pyclass(v: Any) -> str:
    if isinstance(v, bool):
        return "bool"
    if isinstance(v, int):
        return "int"
    if isinstance(v, decimal.Decimal):
        return "Decimal"
    if isinstance(v, float):
        return "float"
    if isinstance(v, str):
        return "str"
    if isinstance(v, dt.datetime):
        return "datetime_tz" if v.tzinfo is not None else "datetime"
    if isinstance(v, dt.date):
        return "date"
    if isinstance(v, dt.time):
        return "time"
    if isinstance(v, (bytes, bytearray)):
        return "bytes"
    return type(v).__name__


CLS_TO_CODE = {"int": 0, "Decimal": 0, "float": 1, "str": (2, 5), "date": 3, "datetime": 8, "datetime_tz": 7, "time": 12, "bool": 13, "bytes": 11}


class Machine:
    def __init__(self, case: dict[str, Any], sim: core.Sim) -> None:
        self.case = case
        self.sim = sim
        self.world = World(sim, nop_regexes=[r"^CALL\b"]) if self.case["config"].get("nop") else World(sim)
        self.violation: dict[str, Any] | None = None
        self.probes: dict[str, int] = {}
        self.state: dict[tuple[str, int], dict[str, Any]] = {}
        self.kinds: list[Any] = []
        self.last_actor: tuple[str, int] | None = None

    def flag(self, prop: str, signature: str, clause: str, detail: Any) -> None:
        if self.violation is None:
            self.violation = {"property": prop, "signature": signature, "clause": clause, "detail": detail}

    def probe(self, name: str) -> None:
        self.probes[name] = self.probes.get(name, 0) + 1

    def setup(self) -> None:
        with self.sim.quiet():
            w = self.world
            w.conns["a"] = w.fs.connect(database=DB, schema=SC)
            w.conns["b"] = w.fs.connect(database=DB, schema=SC)
            cur = w.conns["a"].cursor()
            cols = ", ".join(f"{n} {t}" for n, t, *_ in COLS)
            cur.execute(f"CREATE TABLE {DB}.{SC}.TT ({cols})")
            for r in self.case["config"]["rows"]:
                cur.execute(f"INSERT INTO {DB}.{SC}.TT SELECT {', '.join(r[n] for n, *_ in COLS)}")
            cur.execute(f"CREATE TABLE {DB}.{SC}.SIDE (X INT)")
            cur.execute(f"INSERT INTO {DB}.{SC}.SIDE VALUES (1), (2), (3)")

    def reference(self, sql: str, params: Any = None) -> list[tuple[Any, ...]] | None:
        """Rows of the query as a quiet twin cursor's fetchall returns them (tuple cursor)."""
        with self.sim.quiet():
            try:
                c = self.world.fs.connect(database=DB, schema=SC).cursor()
                return (c.execute(sql, params) if params is not None else c.execute(sql)).fetchall()
            except BaseException:  # noqa: BLE001
                return None

    def cursor(self, op: dict[str, Any]) -> Any:
        return self.world.cursor(op["s"], op["cur"], op.get("dict", False))

    # ---- one operation
    def step(self, i: int, op: dict[str, Any]) -> None:
        key = (op["s"], op["cur"])
        st = self.state.get(key)
        k = op["k"]
        self.kinds.append((op["s"], op["cur"], k, op.get("kind")))
        interrupted = self.last_actor is not None and self.last_actor != key
        self.last_actor = key
        if k == "foreign":
            with self.sim.quiet():
                pass
            out = self.world.apply({"s": op["s"], "k": "exec", "cur": op["cur"], "sql": op["sql"]})
            if not out.get("ok"):
                raise core.HarnessError(f"foreign statement failed: {out}")
            for s2 in self.state.values():
                s2["foreign_since_execute"] = True
                if op.get("alter_tt"):
                    s2["alter_since_execute"] = True
            return
        cur = self.cursor(op)
        brief = {"op_index": i, "op": {x: op.get(x) for x in ("s", "cur", "dict", "k", "n", "sql")}}
        if k in ("execute", "nonquery"):
            try:
                if op.get("params") is not None:
                    cur.execute(op["sql"], op["params"])
                else:
                    cur.execute(op["sql"])
            except BaseException as e:  # noqa: BLE001
                self.flag("C06" if k == "nonquery" else "C05", f"execute-raises/{op.get('kind', 'select')}/{type(e).__name__}", "a generated statement failed", {**brief, "error": exc_record(e)})
                return
            if k == "execute":
                ref = self.reference(op["sql"], op.get("params"))
                self.state[key] = {"kind": "select", "items": op["items"], "ids": op["ids"], "ref": ref, "idx": 0, "ncol": len(op["items"]), "dict": op.get("dict", False),
                                   "arraysize": st["arraysize"] if st else 1, "foreign_since_execute": False, "sibling_since_execute": False, "handed": 0, "sql": op["sql"], "star": op.get("star", False), "has_params": op.get("params") is not None}
                if op.get("dup"):
                    self.probe("dup_column_names")
            else:
                self.state[key] = {"kind": op["kind"], "cols": op.get("cols"), "idx": None, "dict": op.get("dict", False), "arraysize": st["arraysize"] if st else 1,
                                   "foreign_since_execute": False, "sibling_since_execute": False, "sql": op["sql"]}
            for k2, s2 in self.state.items():
                if k2 != key and k2[0] == key[0]:
                    s2["sibling_since_execute"] = True
            return
        if k == "arraysize":
            cur.arraysize = op["n"]
            if st:
                st["arraysize"] = op["n"]
            else:
                self.state[key] = {"kind": None, "arraysize": op["n"]}
            return
        if k in ("fetchone", "fetchmany", "fetchall", "pandas"):
            if st is None or st.get("kind") is None:
                self.probe("fetch_before_execute")
                try:
                    if k == "fetchone":
                        r = cur.fetchone()
                    elif k == "fetchmany":
                        r = cur.fetchmany(op["n"]) if op["n"] is not None else cur.fetchmany()
                    elif k == "fetchall":
                        r = cur.fetchall()
                    else:
                        r = cur.fetch_pandas_all()
                    self.flag("C05", f"fetch-before-execute/{k}/returns", "fetching before any execute must raise the no-result-set error", {**brief, "returned": repr(r)[:100]})
                except BaseException:  # noqa: BLE001, S110
                    pass
                return
            if st["kind"] != "select":
                if st.get("cols") is not None and k != "pandas":
                    self.fetch_status(op, cur, st, brief)  # a status result is one row: handed out once, then nothing
                return
            self.fetch(op, cur, st, brief, interrupted)
            return
        if k == "rowcount":
            if st is not None and st.get("kind") == "select":
                got = cur.rowcount
                if got != len(st["ids"]):
                    self.flag("C05", "rowcount/select", "cursor.rowcount must equal the number of result rows", {**brief, "expected": len(st["ids"]), "observed": got})
            return
        if k == "description":
            self.description(op, cur, st, brief)
            return
        if k == "describe":
            self.describe(op, cur, st, brief)
            return
        if k == "rng_episode":
            self.rng_episode(op, brief)
            return
        raise core.HarnessError(f"cursor machine: unknown op {k}")

    # ---- C05
    def fetch(self, op: dict[str, Any], cur: Any, st: dict[str, Any], brief: dict[str, Any], interrupted: bool) -> None:
        k = op["k"]
        n_total = len(st["ids"])
        idx = st["idx"]
        if st["handed"] > 0 and interrupted:
            self.probe("fetch_interrupted_by_sibling")
        if idx >= n_total:
            self.probe("fetch_past_end")
        if st["dict"]:
            self.probe("dict_cursor_fetch")
        try:
            if k == "fetchone":
                r = cur.fetchone()
                got = [] if r is None else [r]
                want_n = 1 if idx < n_total else 0
                if want_n == 0 and r is not None:
                    self.flag("C05", "fetch-past-end/fetchone", "fetchone after the last row must return None", {**brief, "returned": repr(r)[:120]})
                    return
            elif k == "fetchmany":
                size = op["n"] if op["n"] is not None else st["arraysize"]
                if op["n"] is None:
                    self.probe("fetchmany_default_size")
                got = cur.fetchmany(op["n"]) if op["n"] is not None else cur.fetchmany()
                want_n = max(0, min(size, n_total - idx))
            elif k == "fetchall":
                got = cur.fetchall()
                want_n = max(0, n_total - idx)
            else:
                self.probe("pandas")
                df = cur.fetch_pandas_all()
                if len(df) != n_total or len(df.columns) != st["ncol"]:
                    self.flag("C05", "pandas/shape", "fetch_pandas_all must agree with the result rows", {**brief, "expected": [n_total, st["ncol"]], "observed": [len(df), len(df.columns)]})
                elif n_total and [int(x) for x in df.iloc[:, 0].tolist()] != st["ids"]:
                    self.flag("C05", "pandas/rows", "fetch_pandas_all must agree with the result rows", {**brief, "expected_ids": st["ids"], "observed": df.iloc[:, 0].tolist()[:20]})
                return
        except BaseException as e:  # noqa: BLE001
            self.flag("C05", f"fetch-raises/{k}/{type(e).__name__}", "a fetch on an open result set raised", {**brief, "error": exc_record(e)})
            return
        if not isinstance(got, list):
            self.flag("C05", f"fetch-type/{k}", "fetchmany/fetchall must return a list", {**brief, "returned": repr(got)[:120]})
            return
        if len(got) != want_n:
            self.flag("C05", f"fetch-count/{k}", "wrong number of rows handed out", {**brief, "expected": want_n, "observed": len(got), "index": idx, "total": n_total, "arraysize": st["arraysize"]})
            return
        for j, row in enumerate(got):
            pos = idx + j
            want_id = st["ids"][pos]
            if st["dict"]:
                if not isinstance(row, dict):
                    self.flag("C05", "row-type/dict", "a DictCursor row must be a dict", {**brief, "row": repr(row)[:120]})
                    return
                vals = list(row.values())
                keys = list(row.keys())
                want_names = [it["name"] for it in st["items"]]
                if any(w is not None and w != g for w, g in zip(want_names, keys)) or len(keys) != st["ncol"]:
                    self.flag("C05", "dict-keys", "DictCursor keys must be the result column names", {**brief, "expected": want_names, "observed": keys})
                    return
            else:
                if not isinstance(row, tuple):
                    self.flag("C05", "row-type/tuple", "a row must be a tuple", {**brief, "row": repr(row)[:120]})
                    return
                vals = list(row)
            if len(vals) != st["ncol"]:
                self.flag("C05", "row-width" + ("/repeated-names" if op_dup(st) else ""), "a row must have one element per result column", {**brief, "expected_width": st["ncol"], "row": repr(row)[:160], "sql": st["sql"]})
                return
            if vals[0] != want_id:
                self.flag("C05", f"row-order/{k}", "rows must be handed out in result order, each exactly once", {**brief, "position": pos, "expected_id": want_id, "observed_id": norm(vals[0])})
                return
            if st["ref"] is not None and pos < len(st["ref"]) and len(st["ref"][pos]) == len(vals):
                if norm(list(st["ref"][pos])) != norm(vals):
                    self.flag("C05", "row-values", "the row differs from the same row fetched by a twin cursor", {**brief, "position": pos, "expected": norm(list(st["ref"][pos])), "observed": norm(vals)})
                    return
            st.setdefault("classes", [set() for _ in range(st["ncol"])])
            for c, v in enumerate(vals):
                if v is not None:
                    st["classes"][c].add(pyclass(v))
        st["idx"] = idx + len(got) if k != "fetchmany" else min(n_total, idx + (op["n"] if op["n"] is not None else st["arraysize"]))
        st["handed"] += 1

    def fetch_status(self, op: dict[str, Any], cur: Any, st: dict[str, Any], brief: dict[str, Any]) -> None:
        """After DML / DDL / SET / transaction statements the result is exactly one status row."""
        k = op["k"]
        idx = st.get("idx") or 0
        self.probe("fetch_after_status_statement")
        try:
            if k == "fetchone":
                r = cur.fetchone()
                got = [] if r is None else [r]
                size = 1
            elif k == "fetchmany":
                size = op["n"] if op["n"] is not None else st["arraysize"]
                got = cur.fetchmany(op["n"]) if op["n"] is not None else cur.fetchmany()
            else:
                size = 10 ** 6
                got = cur.fetchall()
        except BaseException as e:  # noqa: BLE001
            self.flag("C05", f"fetch-raises/{k}/{type(e).__name__}", "a fetch on an open result set raised", {**brief, "statement": st["sql"], "error": exc_record(e)})
            return
        want_n = max(0, min(size, 1 - idx))
        if len(got) != want_n:
            self.flag("C05", f"fetch-count/status-row/{k}", "the status row of a statement is handed out exactly once", {**brief, "statement": st["sql"], "expected": want_n, "observed": len(got), "already_handed_out": idx})
            return
        st["idx"] = min(1, idx + size)
        if got and st.get("cols"):
            # C06: the row must be the one its description (checked against st["cols"] when description is read) describes
            row = got[0]
            names = list(row.keys()) if isinstance(row, dict) else None
            vals = list(row.values()) if isinstance(row, dict) else list(row)
            kind = st["kind"]
            if names is not None and names != st["cols"]:
                self.flag("C06", f"status-row-names/{kind}", "the keys of the status row must be the described column names", {**brief, "statement": st["sql"], "expected": st["cols"], "observed": names})
            elif len(vals) != len(st["cols"]):
                self.flag("C06", f"status-row-width/{kind}", "the status row must have one value per described column", {**brief, "statement": st["sql"], "expected": st["cols"], "observed": repr(vals)[:120]})
            else:
                for c, v in zip(st["cols"], vals):
                    want = str if c == "status" else int if c.startswith("number of") else None
                    if want is not None and (type(v) is not want):
                        self.flag("C06", f"status-row-type/{kind}", "the value of a status row must be of the described type (status: TEXT, counts: FIXED)",
                                  {**brief, "statement": st["sql"], "column": c, "observed": repr(v)[:80], "class": type(v).__name__})
                        break

    # ---- C06
    def description(self, op: dict[str, Any], cur: Any, st: dict[str, Any] | None, brief: dict[str, Any]) -> None:
        if st is None or st.get("kind") in (None, "other"):
            return  # before any execute / after describe(): not constrained
        kind = st["kind"]
        if st.get("idx"):
            self.probe("description_mid_fetch")
        if kind != "select":
            self.probe("description_after_nonquery")
        if st.get("foreign_since_execute") or st.get("sibling_since_execute"):
            self.probe("description_after_foreign_stmt")
        before = self.world.observe(with_sessions=True)
        try:
            desc = cur.description
        except BaseException as e:  # noqa: BLE001
            why = kind
            self.flag("C06", f"description-raises/{why}/{type(e).__name__}", "description must be available after every successfully executed statement", {**brief, "statement": st["sql"], "error": exc_record(e)})
            return
        after = self.world.observe(with_sessions=True)
        if before != after:
            self.flag("C06", f"description-side-effect/{kind}", "reading description changed data, catalog or session", {**brief, "statement": st["sql"]})
            return
        if desc is None:
            self.flag("C06", f"description-none/{kind}", "description must be available", {**brief, "statement": st["sql"]})
            return
        names = [d.name for d in desc]
        if kind == "select":
            if st.get("star") and st.get("alter_since_execute"):
                # known finding (description is recomputed from the current catalog when read): only demanded in hazard runs
                if not self.case["config"]["hazards"]["desc_foreign_ddl"]:
                    return
            if len(desc) != st["ncol"]:
                self.flag("C06", "description-width/" + ("star-after-foreign-ddl" if st.get("star") and st.get("alter_since_execute") else "select"), "one description entry per result column", {**brief, "expected": st["ncol"], "observed": names, "statement": st["sql"]})
                return
            unnamed = [j for j, it in enumerate(st["items"]) if it["name"] is None]
            if unnamed and not st.get("has_params") and not (st.get("foreign_since_execute") or st.get("sibling_since_execute")):
                # an un-aliased expression is named by the engine: description must use the very name describe(q) reports
                with self.sim.quiet():
                    try:
                        twin_names = [x.name for x in self.world.fs.connect(database=DB, schema=SC).cursor().describe(st["sql"])]
                    except BaseException:  # noqa: BLE001
                        twin_names = None
                if twin_names is not None and len(twin_names) == len(desc):
                    for j in unnamed:
                        if desc[j].name != twin_names[j]:
                            self.flag("C06", "description-name/unaliased-expression", "description and describe(q) name an un-aliased expression alike", {**brief, "column": j, "description": desc[j].name, "describe": twin_names[j], "statement": st["sql"]})
                            return
            for j, it in enumerate(st["items"]):
                d = desc[j]
                if it["name"] is not None and d.name != it["name"]:
                    self.flag("C06", "description-name", "description names must equal the result column names", {**brief, "column": j, "expected": it["name"], "observed": d.name})
                    return
                want = COLMAP[it["col"]][2] if it["col"] else it.get("tc")
                if want is not None:
                    ok = d.type_code == want[0] or (want[0] == 2 and d.type_code in (2, 5) and it["col"] is None)
                    if ok and want[0] == 0 and want[2] is not None:
                        ok = d.scale == want[2] and (want[1] is None or d.precision == want[1])
                    if not ok:
                        if st.get("foreign_since_execute") and False:
                            return
                        self.flag("C06", f"description-type/{it['col'] or it['expr']}", "type code / precision / scale must match the declared column type",
                                  {**brief, "column": j, "expected": want, "observed": [d.type_code, d.precision, d.scale], "statement": st["sql"]})
                        return
                for cls in sorted(st.get("classes", [set()] * st["ncol"])[j]):
                    code = CLS_TO_CODE.get(cls)
                    codes = code if isinstance(code, tuple) else (code,)
                    good = d.type_code in codes and not (cls == "int" and (d.scale or 0) != 0) and not (cls == "Decimal" and (d.scale or 0) == 0)
                    if not good:
                        self.flag("C06", f"description-vs-values/{cls}", "type code must agree with the Python type of the values fetched",
                                  {**brief, "column": j, "python_class": cls, "observed": [d.type_code, d.precision, d.scale], "statement": st["sql"]})
                        return
        else:
            if st.get("cols") is not None and names != st["cols"]:
                self.flag("C06", f"description-names/{kind}", "description must name the result columns of the statement", {**brief, "expected": st["cols"], "observed": names, "statement": st["sql"]})
                return
        # reading description must not disturb the pending result: the next fetch checks that through the index model

    def describe(self, op: dict[str, Any], cur: Any, st: dict[str, Any] | None, brief: dict[str, Any]) -> None:
        self.probe("describe_call")
        before = self.world.observe(with_sessions=True)
        try:
            got = cur.describe(op["sql"])
        except BaseException as e:  # noqa: BLE001
            self.flag("C06", f"describe-raises/{type(e).__name__}", "describe(q) must return q's description", {**brief, "error": exc_record(e)})
            return
        if self.world.observe(with_sessions=True) != before:
            self.flag("C06", "describe-side-effect", "describe(q) must not execute q or change anything", brief)
            return
        with self.sim.quiet():
            twin = self.world.fs.connect(database=DB, schema=SC).cursor()
            twin.execute(op["sql"])
            want = twin.description
        a = [[d.name, d.type_code, d.precision, d.scale] for d in got]
        b = [[d.name, d.type_code, d.precision, d.scale] for d in want]
        if a != b:
            self.flag("C06", "describe-differs", "describe(q) must equal description after execute(q)", {**brief, "describe": a, "description": b})
            return
        # fakesnow's describe executes a DESCRIBE on this cursor: the pending result set of the cursor is replaced
        # (the property only speaks about `description`, so the cursor's model state is reset, not checked)
        if st is not None:
            st["kind"] = "other"
            st["cols"] = None
        else:
            self.state[(op["s"], op["cur"])] = {"kind": "other", "arraysize": 1}


    def rng_episode(self, op: dict[str, Any], brief: dict[str, Any]) -> None:
        """A session's random generator is part of the session: describe(q) of a seeded query (which must not execute
        q) and reading description must leave the sequence of later unseeded RANDOM() values where it was."""
        self.probe("rng_episode")
        vals = []
        try:
            for disturbed in (False, True):
                conn = self.world.fs.connect(database=DB, schema=SC)
                c = conn.cursor()
                c.execute("SELECT RANDOM(42) AS R")
                c.fetchall()
                if disturbed:
                    if op["how"] == "describe":
                        conn.cursor().describe(f"SELECT RANDOM({op['seed']}) AS R")
                    else:
                        _ = c.description
                c.execute("SELECT RANDOM() AS R")
                vals.append(norm_rows(c.fetchall()))
                conn.close()
        except BaseException as e:  # noqa: BLE001
            self.flag("C06", f"rng-episode-raises/{type(e).__name__}", "seeded RANDOM, describe and description must work", {**brief, "error": exc_record(e)})
            return
        if vals[0] != vals[1]:
            self.flag("C06", f"{op['how']}-side-effect/random-generator", "describe(q) / description never change the session (here: its random generator)",
                      {**brief, "undisturbed": vals[0], "after": vals[1]})


def op_dup(st: dict[str, Any]) -> bool:
    names = [it["name"] if it["name"] is not None else "?" + it["expr"] for it in st["items"]]
    return len(set(names)) < len(names)


def run(case: dict[str, Any]) -> dict[str, Any]:
    import snowflake.connector

    sim = core.begin()
    saved_style = snowflake.connector.paramstyle
    snowflake.connector.paramstyle = case["config"].get("paramstyle", "pyformat")  # process-global, snapshot at connect (S5)
    m = Machine(case, sim)
    try:
        m.setup()
        n = 0
        for i, op in enumerate(case["ops"]):
            sim.set_session(op["s"])
            sim.note(sim.tick(), op["s"], op["cur"], op["k"])
            m.step(i, op)
            n += 1
            if m.violation is not None:
                break
        sim.set_session("main")
        p = m.probes
        nontrivial_c05 = p.get("fetch_interrupted_by_sibling", 0) > 0 and sum(1 for k in m.kinds if k[2].startswith("fetch")) >= 4
        nontrivial_c06 = p.get("description_mid_fetch", 0) + p.get("description_after_foreign_stmt", 0) > 0
        return {
            "violations": [m.violation] if m.violation else [],
            "digest": sim.digest(),
            "steps": sim.engine_events,
            "ops": n,
            "probes": p,
            "faults": {k: p[k] for k in ("fetch_interrupted_by_sibling", "fetch_past_end", "fetch_before_execute", "description_after_foreign_stmt", "description_mid_fetch") if p.get(k)},
            "strategy": "serial",
            "fingerprint": fp(m.kinds),
            "interleaving": fp([(k[0], k[1]) for k in m.kinds]),
            "nontrivial": nontrivial_c05 or nontrivial_c06,
        }
    finally:
        snowflake.connector.paramstyle = saved_style
        m.world.close()
        core.end()
