"""Profile `patch` (C20): patch() and the CLI switch the fake on and off cleanly.

The life cycle enter -> body -> exit with a FAULT AT EVERY POINT: set-up failing at target i (module missing,
attribute missing, attribute not a snowflake function, module not yet imported) for every position of the bad
target; body ending normally / by Exception / KeyboardInterrupt / SystemExit; nested entry; re-entry
afterwards; the same through cli.main with a target script/module that raises or exits.  The finite scenario
space is ENUMERATED completely (run index < N_ENUM), followed by seeded random target lists and argv sequences.
Every scenario runs in a forked child (a failed set-up may leave process-global state behind).
"""

from __future__ import annotations

import itertools
import json
import os
import shutil
import sys
from typing import Any

from .. import core
from ..runner import fp
from ..world import scratch_dir
from .crash import in_child

NAME = "patch"
PROPERTIES = ["C20"]

GOOD = ["fsv_mod_a.connect", "fsv_mod_a.write_pandas", "fsv_mod_b.sf_connect"]
LAZY = ["fsv_mod_lazy.connect"]
BAD = {"missing_module": "fsv_nope.connect", "missing_attr": "fsv_mod_a.nope", "not_snowflake": "fsv_mod_other.connect",
       # the same refusals for a module that patch() itself imports first
       "lazy_missing_attr": "fsv_mod_lazy_bad.nope", "lazy_not_snowflake": "fsv_mod_lazy_bad.connect"}
LAZY_INDIRECT = "fsv_mod_lazy_ind.connect"  # not imported before patch(); takes its connect from a module that was
BODY = ["normal", "Exception", "KeyboardInterrupt", "SystemExit"]

MODULES = {
    "fsv_mod_a.py": "from snowflake.connector import connect\nfrom snowflake.connector.pandas_tools import write_pandas\n",
    "fsv_mod_b.py": "from snowflake.connector import connect as sf_connect\n",
    "fsv_mod_lazy.py": "from snowflake.connector import connect\n",
    "fsv_mod_other.py": "def connect(*a, **k):\n    return 'not snowflake'\n",
    "fsv_mod_lazy_bad.py": "def connect(*a, **k):\n    return 'not snowflake either'\n",
    "fsv_mod_lazy_ind.py": "from fsv_mod_b import sf_connect as connect\n",
    "fsv_script.py": "import sys, json, os\nopen(os.environ['FSV_OUT'], 'w').write(json.dumps(sys.argv))\nimport snowflake.connector\nopen(os.environ['FSV_OUT'] + '.fake', 'w').write(type(snowflake.connector.connect).__name__)\n"
                     "mode = os.environ.get('FSV_MODE', 'normal')\nif mode == 'raise':\n    raise RuntimeError('boom')\nif mode == 'exit':\n    sys.exit(3)\n",
}


def _target_lists() -> list[dict[str, Any]]:
    out: list[dict[str, Any]] = [
        {"targets": [], "fault": None},
        {"targets": GOOD[0], "fault": None, "as_string": True},
        {"targets": [GOOD[0]], "fault": None},
        {"targets": [GOOD[0], GOOD[1]], "fault": None},
        {"targets": [GOOD[2], GOOD[0], GOOD[1]], "fault": None},
        {"targets": [LAZY[0]], "fault": None, "lazy": True},
        {"targets": [GOOD[0], LAZY[0]], "fault": None, "lazy": True},
        {"targets": [LAZY_INDIRECT], "fault": None, "lazy_indirect": True},
        {"targets": [GOOD[0], LAZY_INDIRECT], "fault": None, "lazy_indirect": True},
    ]
    for cause, bad in BAD.items():
        for pos in range(3):
            t = [GOOD[0], GOOD[1]]
            t.insert(pos, bad)
            out.append({"targets": t, "fault": {"cause": cause, "position": pos}})
        out.append({"targets": [bad], "fault": {"cause": cause, "position": 0}})
    return out


def _cli_cases() -> list[dict[str, Any]]:
    out = []
    for mode in ("normal", "raise", "exit"):
        for how in ("path", "module"):
            out.append({"cli": True, "how": how, "mode": mode, "pre": [], "targs": ["a", "-m", "x", "--db_path", "y", "-d"]})
    pres = [[], ["-d", "<D>"], ["--db_path", "<D>"], ["--db_path=<D>"], ["-d<D>"]]
    targss = [[], ["pos1"], ["-x"], ["--flag", "v"], ["-m", "inner"], ["-d", "inner"], ["--", "z"], ["a b", ""]]
    for pre, targs, how in itertools.product(pres, targss, ("path", "module")):
        out.append({"cli": True, "how": how, "mode": "normal", "pre": pre, "targs": targs})
    return out


ENUM: list[dict[str, Any]] = []
for _tl in _target_lists():
    for _b in BODY:
        for _nested in (False, True):
            ENUM.append({**_tl, "body": _b, "nested": _nested})
ENUM += _cli_cases()
N_ENUM = len(ENUM)

SPEC = {
    "runs": {"quick": N_ENUM + 120, "thorough": N_ENUM + 6000},
    "wall": {"quick": 600, "thorough": 3600},
    "chunk": 8,
    "level": "fault_enumeration",
    "exhaustive": True,
    "technique": "deterministic simulation with fault injection: the patch()/CLI life cycle with a fault enumerated at every point (set-up failure at each target position x cause, every body exit mode, nested and repeated entry), each scenario in a forked process; identity and liveness invariants before/inside/after",
    "level_text": (
        f"The finite scenario space is enumerated completely ({N_ENUM} scenarios: target lists with the bad target at every position x 5 "
        "causes, from-import and not-yet-imported targets, string vs list form) x (body ends normally / Exception / KeyboardInterrupt / "
        "SystemExit) x (nested entry or not), each followed by re-entry; plus the CLI with a script/module that returns, raises or exits "
        "and option forms short/long/=/attached. Then seeded random target lists and argv token sequences. Checked: identity (`is`) of every "
        "standard and extra target before / inside / after, the instance's DuckDB connection closed afterwards, patch() enterable again, "
        "nested patch refused without change, the target's sys.argv equal to a 10-line reference splitter's."
    ),
    "level_note": "Trusted: fork as isolation between scenarios; the reference argv splitter (fakesnow options -d/--db_path with separate, '=' and attached values, -m/--module, first positional = path). The argv clause is a pure function of argv and is input sampling, not simulation (reported separately in the evidence).",
    "rule": (
        "one evaluation = one life-cycle scenario in its own process; non-trivial = the scenario contains a fault (failing set-up, abnormal body "
        "exit, nested entry) or a CLI invocation with target arguments; distinct = the scenario itself (hash)"
    ),
    "bounds": f"{N_ENUM} enumerated scenarios (exhaustive) + seeded random target lists (<=6 targets) and argv sequences (<=8 tokens)",
    "components_real": ["fakesnow.patch", "fakesnow.cli.main", "unittest.mock", "runpy", "importlib", "snowflake.connector entry points"],
    "components_stubbed": ["nothing is stubbed; process isolation per scenario by fork"],
    "assumptions": ["scenarios are independent (each starts from a freshly forked, unpatched process)"],
    "mandatory_probes": {"any": ["setup_failure", "body_KeyboardInterrupt", "body_SystemExit", "nested", "cli_module", "cli_path", "lazy_module"]},
}


def gen(rng: Any, prop: str, tier: str) -> dict[str, Any]:
    # the runner hands each run an rng seeded from (VERIF_SEED, index); index < N_ENUM selects the enumerated scenario
    idx = getattr(rng, "_fsv_index", None)
    return {"profile": NAME, "scenario": None, "rng_state": rng.getrandbits(48), "ops": []}


def scenario_for(case: dict[str, Any]) -> dict[str, Any]:
    if case.get("scenario") is not None:
        return case["scenario"]
    i = case.get("index", 0)
    if i < N_ENUM:
        return ENUM[i]
    import random

    rng = random.Random(case["rng_state"])
    if rng.random() < 0.5:
        n = rng.randint(1, 6)
        pool = GOOD + GOOD + LAZY + list(BAD.values())
        t = [rng.choice(pool) for _ in range(n)]
        bad = [(j, x) for j, x in enumerate(t) if x in BAD.values()]
        fault = None
        if bad:
            cause = [k for k, v in BAD.items() if v == bad[0][1]][0]
            fault = {"cause": cause, "position": bad[0][0]}
        return {"targets": t, "fault": fault, "lazy": any(x in LAZY for x in t), "body": rng.choice(BODY), "nested": rng.random() < 0.3}
    toks = ["-d", "--db_path", "-m", "--module", "x.py", "a", "-v", "--k=v", "--db_path=q", "", "--", "-", "1"]
    targs = [rng.choice(toks) for _ in range(rng.randint(0, 8))]
    pre = rng.choice([[], ["-d", "<D>"], ["--db_path", "<D>"], ["--db_path=<D>"], ["-d<D>"]])
    return {"cli": True, "how": rng.choice(["path", "module"]), "mode": "normal", "pre": pre, "targs": targs}


# --------------------------------------------------------------------------- the child


def ref_split(argv: list[str]) -> tuple[dict[str, Any], list[str]] | None:
    """Reference: consume fakesnow's own leading options; the first -m MODULE or positional PATH ends them."""
    opts: dict[str, Any] = {}
    i = 0
    while i < len(argv):
        a = argv[i]
        if a in ("-m", "--module"):
            if i + 1 >= len(argv):
                return None
            opts["module"] = argv[i + 1]
            return opts, argv[i + 2:]
        if a in ("-d", "--db_path"):
            if i + 1 >= len(argv):
                return None
            opts["db_path"] = argv[i + 1]
            i += 2
            continue
        if a.startswith("--db_path="):
            opts["db_path"] = a.split("=", 1)[1]
            i += 1
            continue
        if a.startswith("-d") and len(a) > 2 and not a.startswith("--"):
            opts["db_path"] = a[2:]
            i += 1
            continue
        if a.startswith("-") and a != "-":
            return None  # not an option of fakesnow: usage error
        opts["path"] = a
        return opts, argv[i + 1:]
    return opts, []


def child(w: int, sc: dict[str, Any], base: str) -> None:
    import snowflake.connector
    import snowflake.connector.pandas_tools

    import fakesnow

    sys.path.insert(0, base)
    os.chdir(base)
    import importlib
    import unittest.mock as mock

    res: dict[str, Any] = {"checks": [], "bad": []}

    def check(name: str, ok: bool, detail: Any = None) -> None:
        res["checks"].append(name)
        if not ok:
            res["bad"].append({"check": name, "detail": detail})

    orig_connect = snowflake.connector.connect
    orig_wp = snowflake.connector.pandas_tools.write_pandas
    if sc.get("cli"):
        os.dup2(os.open(os.devnull, os.O_WRONLY), 2)  # argparse usage messages of expected usage errors
        _cli_child(sc, base, res, check, orig_connect)
        os.write(w, (json.dumps(res, default=repr) + "\n").encode())
        os._exit(0)
    targets = sc["targets"]
    tlist = [targets] if isinstance(targets, str) else list(targets)
    importlib.import_module("fsv_mod_a")
    importlib.import_module("fsv_mod_b")
    importlib.import_module("fsv_mod_other")
    eager = [t for t in tlist if t in GOOD]
    origs = {t: getattr(sys.modules[t.rsplit(".", 1)[0]], t.rsplit(".", 1)[1]) for t in eager}

    def all_original(tag: str) -> None:
        check(f"{tag}:std-connect-original", snowflake.connector.connect is orig_connect, type(snowflake.connector.connect).__name__)
        check(f"{tag}:std-write_pandas-original", snowflake.connector.pandas_tools.write_pandas is orig_wp)
        for t, o in origs.items():
            check(f"{tag}:extra-original", getattr(sys.modules[t.rsplit(".", 1)[0]], t.rsplit(".", 1)[1]) is o, t)
        if "fsv_mod_lazy" in sys.modules:
            lz = sys.modules["fsv_mod_lazy"].connect
            check(f"{tag}:lazy-module-target-original", lz is orig_connect, type(lz).__name__)
        if "fsv_mod_lazy_ind" in sys.modules:
            li = sys.modules["fsv_mod_lazy_ind"].connect
            check(f"{tag}:lazy-indirect-target-original", li is orig_connect, type(li).__name__)

    holder: dict[str, Any] = {}
    entered = False
    exc: BaseException | None = None
    try:
        with fakesnow.patch(extra_targets=targets):
            entered = True
            fake = snowflake.connector.connect
            check("inside:std-connect-is-fake", isinstance(fake, mock.MagicMock))
            try:
                holder["fs"] = core.find_instance()
            except BaseException:  # noqa: BLE001
                holder["fs"] = None
            check("inside:std-write_pandas-is-fake", isinstance(snowflake.connector.pandas_tools.write_pandas, mock.MagicMock))
            for t in eager:
                cur = getattr(sys.modules[t.rsplit(".", 1)[0]], t.rsplit(".", 1)[1])
                check("inside:extra-is-fake", isinstance(cur, mock.MagicMock), t)
            if sc.get("lazy"):
                check("inside:lazy-is-fake", isinstance(sys.modules["fsv_mod_lazy"].connect, mock.MagicMock))
            if sc.get("lazy_indirect"):
                li = sys.modules.get("fsv_mod_lazy_ind")
                check("inside:lazy-indirect-is-fake", li is not None and isinstance(li.connect, mock.MagicMock), type(getattr(li, "connect", None)).__name__)
            conn = snowflake.connector.connect(database="db1", schema="s1")
            holder["conn"] = conn
            check("inside:fake-connection-works", type(conn).__name__ == "FakeSnowflakeConnection" and conn.cursor().execute("select 1").fetchall() == [(1,)])
            if eager and eager[0].endswith("connect"):
                c2 = getattr(sys.modules[eager[0].rsplit(".", 1)[0]], eager[0].rsplit(".", 1)[1])(database="db1", schema="s1")
                check("inside:extra-target-returns-fake-connection", type(c2).__name__ == "FakeSnowflakeConnection")
            if sc.get("nested"):
                try:
                    with fakesnow.patch():
                        check("nested:refused", False, "nested patch() was entered")
                except AssertionError:
                    check("nested:refused", True)
                except BaseException as e:  # noqa: BLE001
                    check("nested:refused", False, f"{type(e).__name__}: {e}")
                check("nested:outer-still-fake", snowflake.connector.connect is fake)
                check("nested:outer-still-works", snowflake.connector.connect(database="db1").cursor().execute("select 2").fetchall() == [(2,)])
            b = sc["body"]
            if b == "Exception":
                raise ValueError("body")
            if b == "KeyboardInterrupt":
                raise KeyboardInterrupt()
            if b == "SystemExit":
                raise SystemExit(5)
    except BaseException as e:  # noqa: BLE001
        exc = e
    res["entered"] = entered
    res["exc"] = type(exc).__name__ if exc is not None else None
    if sc.get("fault"):
        check("setup:failed-as-expected", not entered and exc is not None, res["exc"])
        all_original("after-failed-setup")
    else:
        check("setup:entered", entered, f"{res['exc']}: {exc}")
        want = {"normal": None, "Exception": "ValueError", "KeyboardInterrupt": "KeyboardInterrupt", "SystemExit": "SystemExit"}[sc["body"]]
        check("exit:body-exception-propagates", res["exc"] == want, res["exc"])
        all_original("after-exit")
        fs = holder.get("fs")
        if fs is not None:
            try:
                core.raw(fs.duck_conn).execute("select 1")
                check("after-exit:instance-connection-closed", False, "instance's DuckDB connection still open")
            except BaseException:  # noqa: BLE001
                check("after-exit:instance-connection-closed", True)
        if holder.get("conn") is not None:
            try:
                holder["conn"].cursor().execute("select 1")
                check("after-exit:session-connection-closed", False, "a connection made inside the block still executes statements")
            except BaseException:  # noqa: BLE001
                check("after-exit:session-connection-closed", True)
    # re-entry
    try:
        with fakesnow.patch():
            ok = isinstance(snowflake.connector.connect, mock.MagicMock) and snowflake.connector.connect(database="db2").cursor().execute("select 3").fetchall() == [(3,)]
        check("reentry:works", ok)
    except BaseException as e:  # noqa: BLE001
        check("reentry:works", False, f"{type(e).__name__}: {str(e)[:120]}")
    check("reentry:restored", snowflake.connector.connect is orig_connect, type(snowflake.connector.connect).__name__)
    os.write(w, (json.dumps(res, default=repr) + "\n").encode())
    os._exit(0)


def _cli_child(sc: dict[str, Any], base: str, res: dict[str, Any], check: Any, orig_connect: Any) -> None:
    import snowflake.connector

    import fakesnow.cli

    D = os.path.join(base, "dbs")
    pre = [p.replace("<D>", D) for p in sc["pre"]]
    tgt = ["-m", "fsv_script"] if sc["how"] == "module" else [os.path.join(base, "fsv_script.py")]
    argv = pre + tgt + list(sc["targs"])
    out = os.path.join(base, "argv.json")
    os.environ["FSV_OUT"] = out
    os.environ["FSV_MODE"] = sc["mode"]
    ref = ref_split(argv)
    exc = None
    rc = None
    saved_argv = list(sys.argv)
    try:
        rc = fakesnow.cli.main(argv)
    except BaseException as e:  # noqa: BLE001
        exc = e
    sys.argv = saved_argv
    res["cli"] = {"argv": argv, "rc": rc, "exc": type(exc).__name__ if exc else None}
    ran = os.path.exists(out)
    if ref is None or ("module" not in ref[0] and "path" not in ref[0]):
        check("cli:usage-error-does-not-run-target", not ran, argv)
    else:
        want = [ref[0].get("module") or ref[0]["path"], *ref[1]]
        got = json.load(open(out)) if ran else None
        check("cli:target-ran", ran, {"argv": argv, "exc": res["cli"]["exc"]})
        if ran:
            if "module" in ref[0]:
                # like `python -m`, argv[0] is the module's file
                ok_argv = bool(got) and str(got[0]).endswith("fsv_script.py") and got[1:] == want[1:]
            else:
                ok_argv = got == want
            check("cli:target-argv", ok_argv, {"argv": argv, "expected": want, "observed": got})
            check("cli:target-sees-fake", open(out + ".fake").read() == "MagicMock")
            if ref[0].get("db_path") and sc["mode"] == "normal":
                pass
        want_exc = {"normal": None, "raise": "RuntimeError", "exit": "SystemExit"}[sc["mode"]]
        if ran:
            check("cli:exception-propagates", res["cli"]["exc"] == want_exc, res["cli"]["exc"])
    check("cli:restored-after", snowflake.connector.connect is orig_connect, type(snowflake.connector.connect).__name__)


# --------------------------------------------------------------------------- run


def run(case: dict[str, Any]) -> dict[str, Any]:
    sc = scenario_for(case)
    case["scenario"] = sc  # the replay file carries the scenario itself, not its position in the enumeration
    base = scratch_dir(f"patch-{case.get('run_seed', 0)}")
    shutil.rmtree(base, ignore_errors=True)
    os.makedirs(base)
    try:
        for name, src in MODULES.items():
            with open(os.path.join(base, name), "w") as f:
                f.write(src)
        code, recs = in_child(child, sc, base, timeout=60)
        if not recs:
            raise core.HarnessError(f"scenario child died without a report (exit {code})")
        res = recs[-1]
        violations = []
        seen_other = False
        for b in res["bad"]:
            if b["check"].endswith("lazy-module-target-original"):
                if not any(v["signature"] == "after-exit:lazy-module-target-original" for v in violations):
                    violations.append({"property": "C20", "signature": "after-exit:lazy-module-target-original", "clause": b["check"], "detail": {"scenario": sc, "failed_checks": res["bad"][:4]}})
                continue
            if seen_other:
                continue
            seen_other = True
            where = "cli" if sc.get("cli") else ("setup-failure/" + sc["fault"]["cause"] if sc.get("fault") else f"body-{sc['body']}" + ("/nested" if sc.get("nested") else "") + ("/lazy" if sc.get("lazy") else ""))
            name = b["check"]
            sig = f"{name}/{where}" if not sc.get("cli") else f"{name}/{sc['how']}/pre={'+'.join(p.replace('<D>', 'D') for p in sc['pre']) or 'none'}" if name != "cli:target-argv" else f"{name}/{_argv_class(sc)}"
            violations.append({"property": "C20", "signature": sig, "clause": name, "detail": {"scenario": sc, "failed_checks": res["bad"][:4], "child": {k: res.get(k) for k in ("entered", "exc", "cli")}}})
        probes = {}
        if sc.get("cli"):
            probes["cli_" + sc["how"]] = 1
            probes["cli_mode_" + sc["mode"]] = 1
        else:
            probes["body_" + sc["body"]] = 1
            if sc.get("fault"):
                probes["setup_failure"] = 1
                probes["setup_failure_" + sc["fault"]["cause"]] = 1
            if sc.get("nested"):
                probes["nested"] = 1
            if sc.get("lazy"):
                probes["lazy_module"] = 1
        nontrivial = bool(sc.get("cli") and sc["targs"]) or bool(sc.get("fault")) or sc.get("body", "normal") != "normal" or bool(sc.get("nested"))
        return {
            "violations": violations,
            "digest": fp([sc, res["checks"], res["bad"]]),
            "steps": len(res["checks"]),
            "ops": 1,
            "probes": probes,
            "faults": {k: v for k, v in probes.items() if k.startswith(("setup_failure", "body_", "nested")) and k != "body_normal"},
            "strategy": "enumerated" if case.get("index", 0) < N_ENUM and case.get("scenario") is None else "seeded",
            "fingerprint": fp(sc),
            "nontrivial": nontrivial,
            "case_scenario": sc,
        }
    finally:
        shutil.rmtree(base, ignore_errors=True)
        core.end()


def _argv_class(sc: dict[str, Any]) -> str:
    pre = "+".join(p.replace("<D>", "D") for p in sc["pre"]) or "none"
    t = sc["targs"]
    kinds = sorted({("opt-m" if x in ("-m", "--module") else "opt-d" if x in ("-d", "--db_path") or x.startswith("--db_path=") else "dash" if x.startswith("-") else "empty" if x == "" else "pos") for x in t})
    return f"{sc['how']}/pre={pre}/targs={'+'.join(kinds) or 'none'}"
