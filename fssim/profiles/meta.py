"""Profile `meta` (C09): metadata views always describe exactly the current user objects.

DDL histories by 1-2 sessions with different current databases on one instance (a share with db_path and a
clean restart in the middle: the Snowflake-side metadata must come back too); after EVERY step an observer pass
from every scope: information_schema.tables/columns/views/databases, DESCRIBE TABLE, SHOW TABLES/OBJECTS in
account/database/schema scope, SHOW SCHEMAS and the description of SELECT *, each compared with a metadata model.
"""

from __future__ import annotations

from typing import Any

from .. import core
from ..runner import fp
from ..world import World, exc_record, sort_key

NAME = "meta"
PROPERTIES = ["C09"]

# declared type -> (information_schema data_type, char length, precision, scale, DESCRIBE type, description type_code)
TYPES: dict[str, tuple[Any, ...]] = {
    "INT": ("NUMBER", None, 38, 0, "NUMBER(38,0)", 0),
    "NUMBER(10,2)": ("NUMBER", None, 10, 2, "NUMBER(10,2)", 0),
    "FLOAT": ("FLOAT", None, None, None, "FLOAT", 1),
    "VARCHAR(20)": ("TEXT", 20, None, None, "VARCHAR(20)", 2),
    "VARCHAR(7)": ("TEXT", 7, None, None, "VARCHAR(7)", 2),
    "VARCHAR": ("TEXT", 16777216, None, None, "VARCHAR(16777216)", 2),
    "BOOLEAN": ("BOOLEAN", None, None, None, "BOOLEAN", 13),
    "DATE": ("DATE", None, None, None, "DATE", 3),
    "TIMESTAMP_NTZ": ("TIMESTAMP_NTZ", None, None, None, "TIMESTAMP_NTZ(9)", 8),
    "TIMESTAMP_TZ": ("TIMESTAMP_TZ", None, None, None, "TIMESTAMP_TZ(9)", 7),
    "TIME": ("TIME", None, None, None, "TIME(9)", 12),
    "BINARY": ("BINARY", None, None, None, "BINARY(8388608)", 11),
    "VARIANT": ("VARIANT", None, None, None, "VARIANT", 5),
}
PLAIN = [t for t in TYPES if not t.startswith("VARCHAR(")]

SPEC = {
    "runs": {"quick": 400, "thorough": 5000},
    "wall": {"quick": 600, "thorough": 7200},
    "chunk": 8,
    "level": "exploration",
    "technique": "deterministic simulation: seeded DDL histories (incl. instance restart on db_path) with an observer pass from every scope after every step, compared with a metadata reference model",
    "level_text": (
        "Seeded DDL histories (CREATE [OR REPLACE] TABLE/VIEW with typed columns, VARCHAR(n), NOT NULL and COMMENT; CTAS; CLONE; ALTER TABLE "
        "add/drop/rename column, rename table, set comment; COMMENT ON; DROP and re-CREATE under the same name; same names in two schemas and "
        "two databases) issued by 1-2 sessions, 20 % on db_path with a clean restart in the middle. After every step information_schema "
        "(tables, columns, views, databases), DESCRIBE TABLE, SHOW TABLES/OBJECTS (account, database, schema scope), SHOW SCHEMAS and the "
        "description of SELECT * are read and compared with a model: exactly the existing user objects, with type names, precision/scale, "
        "declared VARCHAR lengths, nullability, column order and comments as most recently declared. Sampling, not proof."
    ),
    "level_note": "Trusted: the metadata model and its type table (13 declared types); key_sequence of composite keys is not checked; DESCRIBE VIEW is checked for column names, order and type (a declared VARCHAR length is not demanded of a view).",
    "rule": (
        "one evaluation = one seeded DDL history (6-28 steps) with an observer pass after each step; non-trivial = the history contains a DROP, "
        "REPLACE, ALTER, CTAS/CLONE or restart after at least one CREATE; distinct = hash of the sequence of DDL kinds"
    ),
    "bounds": "2 databases x 2 schemas x 3 table names, 1-5 columns per table, 6-28 DDL steps, 1-2 sessions",
    "components_real": ["fakesnow/* incl. info_schema and the SHOW/DESCRIBE transforms", "sqlglot", "duckdb engine (in-memory or files in a scratch dir)"],
    "components_stubbed": ["caller threads", "process boundary for restart (instance closed and re-created in-process)"],
    "assumptions": ["statement-level atomicity"],
    "mandatory_probes": {"any": ["observer_passes", "op_drop_table", "op_alter", "op_comment", "op_create_view", "restart", "two_databases", "cross_database_ddl"]},
}

HAZARDS = ["internal_leak", "recreate", "rename_table", "ctas_clone", "account_scope_without_database", "replace", "describe_pk_flag"]


def gen(rng: Any, prop: str, tier: str) -> dict[str, Any]:
    hz = {h: rng.random() < (0.12 if h in ("recreate", "replace") else 0.06) for h in HAZARDS}
    storage = "db_path" if rng.random() < 0.2 else "memory"
    ops: list[dict[str, Any]] = [{"s": "s0", "k": "connect", "database": "DB1", "schema": "S1"}]
    two = rng.random() < 0.5
    if two:
        ops.append({"s": "s1", "k": "connect", "database": "DB2", "schema": "S1"})
    sess_db = {"s0": "DB1", "s1": "DB2"}
    schemas = {("DB1", "S1")} | ({("DB2", "S1")} if two else set())
    tables: dict[tuple[str, str, str], dict[str, Any]] = {}
    views: dict[tuple[str, str, str], Any] = {}
    used_names: set[tuple[str, str, str]] = set()
    n = rng.randint(6, 28)
    restarted = False

    last_cols: dict[tuple[str, str, str], list[list[Any]]] = {}

    def new_cols(fq: tuple[str, str, str] | None = None) -> list[list[Any]]:
        out = []
        for i in range(rng.randint(1, 5)):
            out.append([f"C{i}", rng.choice(list(TYPES)), rng.random() < 0.2])
        prev = last_cols.get(fq) if fq else None
        if prev:
            # re-creating a name: same-named columns with a related declaration (sized <-> unsized text, text <-> non-text)
            for j, c in enumerate(out):
                if j < len(prev) and rng.random() < 0.6:
                    old_t = prev[j][1]
                    c[1] = rng.choice(["VARCHAR", "VARCHAR(7)", "VARCHAR(20)", "INT"]) if old_t.startswith("VARCHAR") else rng.choice([old_t, "VARCHAR", "VARCHAR(20)"])
        return out

    for step in range(n):
        sid = rng.choice(["s0", "s1"]) if two else "s0"
        db = sess_db[sid]
        if two and rng.random() < 0.3:
            db = sess_db["s1" if sid == "s0" else "s0"]  # cross-database DDL: fully qualified names issued from the other database's session
        home = db == sess_db[sid]
        my_schemas = sorted(s for d, s in schemas if d == db)
        kind = rng.choices(["create", "drop", "alter_add", "alter_drop", "alter_rename_col", "rename_table", "comment", "view", "drop_view", "ctas", "clone", "schema", "restart", "noop"],
                           [12, 4, 4, 3, 3, 2, 5, 3, 1, 2, 2, 2, 2 if storage == "db_path" and not restarted and step > 2 else 0, 2])[0]
        mine = sorted(t for t in tables if t[0] == db)
        nopk = [t for t in mine if not tables[t].get("pk")]  # DuckDB refuses ALTER on a table its primary-key index depends on
        if kind == "noop":
            # statements fakesnow turns into "nothing to do": the metadata must stay exactly as most recently declared
            t0 = rng.choice(mine) if mine else None
            ops.append({"s": sid, "k": "exec", "ddl": "noop", "sql": rng.choice([f"SET V{step} = {step}", "SET V0 = 'x'"] + ([f"ALTER TABLE {'.'.join(t0)} CLUSTER BY ({tables[t0]['cols'][0][0]})"] if t0 else []))})
            continue
        if kind == "create" and my_schemas:
            sc = rng.choice(my_schemas)
            name = rng.choice(["T1", "T2", "T3"])
            fq = (db, sc, name)
            replace = fq in tables and hz["replace"]
            if fq in tables and not replace:
                continue
            if fq in used_names and fq not in tables and not hz["recreate"]:
                continue
            if fq in views:
                continue
            cols = new_cols(fq)
            # a third of the tables declare a PRIMARY KEY over their first one or two columns (which makes those NOT NULL)
            pk = [c[0] for c in cols[: rng.choice([1, 2])]] if rng.random() < 0.3 else []
            cols = [[c[0], c[1], True if c[0] in pk else c[2]] for c in cols]
            comment = rng.choice([f"cm{step}", f"cm{step}", f"cm{step}", f"cm{step}", "", None, None, None, None])  # '' is a declared (empty) comment
            coldefs = ", ".join(f"{c} {t}{' NOT NULL' if nn else ''}" for c, t, nn in cols) + (f", PRIMARY KEY ({', '.join(pk)})" if pk else "")
            ref = name if sc == "S1" and home and rng.random() < 0.5 else f"{db}.{sc}.{name}"
            if ref == name and sc != _cur_schema(ops, sid):
                ref = f"{db}.{sc}.{name}"
            transient = "TRANSIENT " if rng.random() < 0.2 else ""  # a table property that is not a comment
            sql = f"CREATE {'OR REPLACE ' if replace else ''}{transient}TABLE {ref} ({coldefs})" + (f" COMMENT = '{comment}'" if comment is not None else "")
            ops.append({"s": sid, "k": "exec", "sql": sql, "ddl": "create_table", "fq": list(fq), "cols": cols, "comment": comment, "pk": pk})
            tables[fq] = {"cols": cols, "comment": comment, "pk": pk}
            last_cols[fq] = cols
            used_names.add(fq)
        elif kind == "drop" and mine:
            fq = rng.choice(mine)
            if any(v == fq for v in views.values()):
                continue
            ops.append({"s": sid, "k": "exec", "sql": f"DROP TABLE {'.'.join(fq)}", "ddl": "drop_table", "fq": list(fq)})
            del tables[fq]
        elif kind == "alter_add" and nopk:
            fq = rng.choice(nopk)
            t = rng.choice(list(TYPES))
            c = f"X{step}"
            ops.append({"s": sid, "k": "exec", "sql": f"ALTER TABLE {'.'.join(fq)} ADD COLUMN {c} {t}", "ddl": "alter", "sub": "add", "fq": list(fq), "col": [c, t, False]})
            tables[fq]["cols"] = tables[fq]["cols"] + [[c, t, False]]
        elif kind == "alter_drop" and nopk:
            fq = rng.choice(nopk)
            if len(tables[fq]["cols"]) < 2 or any(v == fq for v in views.values()):
                continue
            c = rng.choice(tables[fq]["cols"])
            ops.append({"s": sid, "k": "exec", "sql": f"ALTER TABLE {'.'.join(fq)} DROP COLUMN {c[0]}", "ddl": "alter", "sub": "drop", "fq": list(fq), "name": c[0]})
            tables[fq]["cols"] = [x for x in tables[fq]["cols"] if x[0] != c[0]]
        elif kind == "alter_rename_col" and nopk:
            fq = rng.choice(nopk)
            if any(v == fq for v in views.values()):
                continue
            c = rng.choice(tables[fq]["cols"])
            if c[1].startswith("VARCHAR") and not hz["rename_table"]:
                continue
            new = f"R{step}"
            ops.append({"s": sid, "k": "exec", "sql": f"ALTER TABLE {'.'.join(fq)} RENAME COLUMN {c[0]} TO {new}", "ddl": "alter", "sub": "rename_col", "fq": list(fq), "name": c[0], "new": new})
            tables[fq]["cols"] = [[new, x[1], x[2]] if x[0] == c[0] else x for x in tables[fq]["cols"]]
        elif kind == "rename_table" and nopk and hz["rename_table"]:
            fq = rng.choice(nopk)
            new = (fq[0], fq[1], f"RN{step}")
            if any(v == fq for v in views.values()):
                continue
            ops.append({"s": sid, "k": "exec", "sql": f"ALTER TABLE {'.'.join(fq)} RENAME TO {'.'.join(new)}", "ddl": "alter", "sub": "rename_table", "fq": list(fq), "new_fq": list(new)})
            tables[new] = tables.pop(fq)
        elif kind == "comment" and mine:
            fq = rng.choice(mine)
            cm = f"k{step}"
            if rng.random() < 0.5:
                ops.append({"s": sid, "k": "exec", "sql": f"COMMENT ON TABLE {'.'.join(fq)} IS '{cm}'", "ddl": "comment", "fq": list(fq), "comment": cm})
            else:
                ops.append({"s": sid, "k": "exec", "sql": f"ALTER TABLE {'.'.join(fq)} SET COMMENT = '{cm}'", "ddl": "comment", "fq": list(fq), "comment": cm})
            tables[fq]["comment"] = cm
        elif kind == "view" and mine:
            src = rng.choice(mine)
            fq = (src[0], src[1], rng.choice(["V1", "V2"]))
            if fq in views or fq in tables or fq in used_names:
                continue
            ops.append({"s": sid, "k": "exec", "sql": f"CREATE VIEW {'.'.join(fq)} AS SELECT * FROM {'.'.join(src)}", "ddl": "create_view", "fq": list(fq), "src": list(src)})
            views[fq] = src
            used_names.add(fq)
        elif kind == "drop_view" and [v for v in views if v[0] == db]:
            fq = rng.choice(sorted(v for v in views if v[0] == db))
            ops.append({"s": sid, "k": "exec", "sql": f"DROP VIEW {'.'.join(fq)}", "ddl": "drop_view", "fq": list(fq)})
            del views[fq]
        elif kind in ("ctas", "clone") and mine and hz["ctas_clone"] and my_schemas:
            src = rng.choice(mine)
            fq = (db, rng.choice(my_schemas), f"CT{step}")
            sql = f"CREATE TABLE {'.'.join(fq)} AS SELECT * FROM {'.'.join(src)}" if kind == "ctas" else f"CREATE TABLE {'.'.join(fq)} CLONE {'.'.join(src)}"
            ops.append({"s": sid, "k": "exec", "sql": sql, "ddl": kind, "fq": list(fq), "src": list(src)})
            tables[fq] = {"cols": [[c[0], c[1], False if kind == "ctas" else c[2]] for c in tables[src]["cols"]], "comment": tables[src]["comment"] if kind == "clone" else None, "pk": list(tables[src].get("pk", [])) if kind == "clone" else []}
            used_names.add(fq)
        elif kind == "schema":
            sc = "S2"
            if (db, sc) in schemas:
                if any(t[:2] == (db, sc) for t in list(tables) + list(views)) and not hz["recreate"]:
                    continue
                ops.append({"s": sid, "k": "exec", "sql": f"DROP SCHEMA {db}.{sc}", "ddl": "drop_schema", "schema": [db, sc]})
                schemas.discard((db, sc))
                for t in [t for t in tables if t[:2] == (db, sc)]:
                    del tables[t]
                for v in [v for v in views if v[:2] == (db, sc)]:
                    del views[v]
            else:
                ops.append({"s": sid, "k": "exec", "sql": f"CREATE SCHEMA {db}.{sc}", "ddl": "create_schema", "schema": [db, sc]})
                schemas.add((db, sc))
        elif kind == "restart":
            ops.append({"s": "s0", "k": "restart"})
            ops.append({"s": "s0", "k": "connect", "database": "DB1", "schema": "S1"})
            if two:
                ops.append({"s": "s1", "k": "connect", "database": "DB2", "schema": "S1"})
            restarted = True
    fs_opts: dict[str, Any] = {"db_path": "<scratch>"} if storage == "db_path" else {}
    return {"profile": NAME, "config": {"hazards": hz, "storage": storage, "two": two, "fs_opts": fs_opts}, "strategy": "serial", "ops": ops}


def _cur_schema(ops: list[dict[str, Any]], sid: str) -> str:
    return "S1"


# --------------------------------------------------------------------------- model + observer


class MetaModel:
    def __init__(self) -> None:
        self.schemas: set[tuple[str, str]] = set()
        self.tables: dict[tuple[str, str, str], dict[str, Any]] = {}
        self.views: dict[tuple[str, str, str], tuple[str, str, str]] = {}
        self.dbs: set[str] = set()
        # a view's SELECT * is expanded when the view is created: its columns are the source's columns of that moment
        self.view_cols: dict[tuple[str, str, str], list[list[Any]]] = {}
        self.table_gen: dict[tuple[str, str, str], int] = {}
        self.view_gen: dict[tuple[str, str, str], int] = {}

    def apply(self, op: dict[str, Any]) -> None:
        if op["k"] == "connect":
            self.dbs.add(op["database"].upper())
            self.schemas.add((op["database"].upper(), op["schema"].upper()))
            return
        if op["k"] != "exec":
            return
        d = op["ddl"]
        fq = tuple(op["fq"]) if "fq" in op else None
        if d in ("create_table", "drop_table", "ctas", "clone") or (d == "alter" and op.get("sub") == "rename_table"):
            self.table_gen[fq] = self.table_gen.get(fq, 0) + 1  # type: ignore[index]
        if d == "create_table":
            self.tables[fq] = {"cols": [list(c) for c in op["cols"]], "comment": op["comment"], "pk": list(op.get("pk") or [])}  # type: ignore[index]
        elif d == "drop_table":
            self.tables.pop(fq, None)  # type: ignore[arg-type]
        elif d == "alter":
            t = self.tables[fq]  # type: ignore[index]
            if op["sub"] == "add":
                t["cols"].append(list(op["col"]))
            elif op["sub"] == "drop":
                t["cols"] = [c for c in t["cols"] if c[0] != op["name"]]
            elif op["sub"] == "rename_col":
                t["cols"] = [[op["new"], c[1], c[2]] if c[0] == op["name"] else c for c in t["cols"]]
            else:
                self.tables[tuple(op["new_fq"])] = self.tables.pop(fq)  # type: ignore[arg-type]
        elif d == "comment":
            self.tables[fq]["comment"] = op["comment"]  # type: ignore[index]
        elif d == "create_view":
            self.views[fq] = tuple(op["src"])  # type: ignore[index, assignment]
            self.view_cols[fq] = [list(c) for c in self.tables[tuple(op["src"])]["cols"]]  # type: ignore[index]
            self.view_gen[fq] = self.table_gen.get(tuple(op["src"]), 0)  # type: ignore[index, arg-type]
        elif d == "drop_view":
            self.views.pop(fq, None)  # type: ignore[arg-type]
        elif d in ("ctas", "clone"):
            src = self.tables[tuple(op["src"])]
            self.tables[fq] = {"cols": [[c[0], c[1], False if d == "ctas" else c[2]] for c in src["cols"]], "comment": src["comment"] if d == "clone" else None, "pk": list(src.get("pk", [])) if d == "clone" else []}  # type: ignore[index]
        elif d == "create_schema":
            self.schemas.add(tuple(op["schema"]))  # type: ignore[arg-type]
        elif d == "drop_schema":
            sc = tuple(op["schema"])
            self.schemas.discard(sc)  # type: ignore[arg-type]
            for t in [t for t in self.tables if t[:2] == sc]:
                del self.tables[t]
                self.table_gen[t] = self.table_gen.get(t, 0) + 1
            for v in [v for v in self.views if v[:2] == sc]:
                del self.views[v]


def v_(signature: str, clause: str, detail: Any) -> dict[str, Any]:
    return {"property": "C09", "signature": signature, "clause": clause, "detail": detail}


def q(cur: Any, sql: str) -> Any:
    try:
        return [list(r) for r in cur.execute(sql).fetchall()]
    except BaseException as e:  # noqa: BLE001
        return {"error": exc_record(e), "sql": sql}


def observe_and_check(world: World, m: MetaModel, hz: dict[str, bool], step_kind: str, observers: dict[str, Any] | None = None) -> dict[str, Any] | None:
    """The observer pass: every metadata surface from every scope against the model. The pass is made twice:
    by long-lived observer sessions (one per database, kept for the whole run, like a user session that stays
    open - per-connection state such as caches shows up here) and by fresh ones."""
    if observers is not None:
        v = _observe(world, m, hz, step_kind, observers)
        if v is not None:
            v["signature"] = v["signature"] + "~long-lived-observer" if _observe(world, m, hz, step_kind, None) is None else v["signature"]
            return v
        return None
    return _observe(world, m, hz, step_kind, None)


def _observe(world: World, m: MetaModel, hz: dict[str, bool], step_kind: str, observers: dict[str, Any] | None) -> dict[str, Any] | None:
    fs = world.fs
    with world.sim.quiet():
        for db in sorted(m.dbs):
            if observers is not None:
                if db not in observers:
                    observers[db] = fs.connect(database=db)
                cur = observers[db].cursor()
            else:
                cur = fs.connect(database=db).cursor()
            dbt = sorted(t for t in m.tables if t[0] == db)
            dbv = sorted(v for v in m.views if v[0] == db)
            # --- information_schema.tables
            got = q(cur, "SELECT table_catalog, table_schema, table_name, table_type, comment FROM information_schema.tables WHERE table_schema NOT IN ('information_schema', 'main')" + ("" if hz["internal_leak"] else f" AND table_catalog = '{db}'"))
            if isinstance(got, dict):
                return v_(f"observer-raises/information_schema.tables/{step_kind}", "a metadata query failed", got)
            want = [[t[0], t[1], t[2], "BASE TABLE", m.tables[t]["comment"]] for t in dbt] + [[v[0], v[1], v[2], "VIEW", None] for v in dbv]
            leak = [r for r in got if str(r[2]).startswith("_fs_") or str(r[0]).startswith("_fs_")]
            if leak:
                return v_("internal-object-listed/information_schema.tables", "no internal table of fakesnow is listed", {"rows": leak})
            d = _cmp(got, want)
            if d:
                what = "comment" if sorted(r[:4] for r in got) == sorted(r[:4] for r in want) else "objects"
                return v_(f"information_schema.tables/{what}/{step_kind}", "information_schema.tables lists exactly the current tables and views with their comments", d)
            # --- information_schema.columns
            got = q(cur, f"SELECT table_schema, table_name, column_name, ordinal_position, is_nullable, data_type, character_maximum_length, numeric_precision, numeric_scale FROM information_schema.columns WHERE table_catalog = '{db}' AND table_schema NOT IN ('information_schema', 'main')")
            if isinstance(got, dict):
                return v_(f"observer-raises/information_schema.columns/{step_kind}", "a metadata query failed", got)
            got_t = [r for r in got if (db, r[0], r[1]) in m.tables]
            extra = [r for r in got if (db, r[0], r[1]) not in m.tables and (db, r[0], r[1]) not in m.views]
            if extra:
                return v_(f"information_schema.columns/stale-object/{step_kind}", "columns of an object that does not exist are listed", {"rows": extra[:4]})
            want = []
            for t in dbt:
                for i, (c, ty, nn) in enumerate(m.tables[t]["cols"]):
                    info = TYPES[ty]
                    want.append([t[1], t[2], c, i + 1, "NO" if nn else "YES", info[0], info[1], info[2], info[3]])
            d = _cmp(got_t, want)
            if d:
                g = {(r[0], r[1], r[2]): r for r in got_t}
                w = {(r[0], r[1], r[2]): r for r in want}
                field = "columns"
                for k in w:
                    if k in g and g[k] != w[k]:
                        idx = next(i for i in range(9) if g[k][i] != w[k][i])
                        field = ["", "", "", "ordinal_position", "is_nullable", "data_type", "character_maximum_length", "numeric_precision", "numeric_scale"][idx]
                        if field == "character_maximum_length":
                            # a length shown for a column that is not text (any more) vs a wrong length of a text column
                            field += "/text-column" if w[k][5] == "TEXT" else "/nontext-column"
                        break
                return v_(f"information_schema.columns/{field}/{step_kind}", "information_schema.columns describes exactly the current columns as most recently declared", d)
            # --- views, databases
            got = q(cur, f"SELECT table_catalog, table_schema, table_name FROM information_schema.views WHERE table_schema NOT IN ('information_schema', 'main')")
            if isinstance(got, dict):
                return v_(f"observer-raises/information_schema.views/{step_kind}", "a metadata query failed", got)
            d = _cmp(got, [list(v) for v in dbv])
            if d:
                return v_(f"information_schema.views/{step_kind}", "information_schema.views lists exactly the current views", d)
            got = q(cur, "SELECT database_name FROM information_schema.databases")
            d = _cmp(got, [[x] for x in sorted(m.dbs)]) if not isinstance(got, dict) else got
            if d:
                return v_(f"information_schema.databases/{step_kind}", "information_schema.databases lists exactly the user databases", d)
            # --- another database's information_schema read through a database-qualified name from this session
            for other in sorted(m.dbs):
                if other == db:
                    continue
                ot = sorted(t for t in m.tables if t[0] == other)
                ov = sorted(v for v in m.views if v[0] == other)
                got = q(cur, f"SELECT table_catalog, table_schema, table_name FROM {other}.information_schema.views WHERE table_schema NOT IN ('information_schema', 'main')")
                d = got if isinstance(got, dict) else _cmp(got, [list(v) for v in ov])
                if d:
                    return v_(f"cross-database/information_schema.views/{step_kind}", "another database's information_schema.views, read through a qualified name, lists exactly that database's views", {"reader_database": db, "read": other, **(d if "unexpected" in d else {"error": d})})
                got = q(cur, f"SELECT table_catalog, table_schema, table_name, table_type FROM {other}.information_schema.tables WHERE table_catalog = '{other}' AND table_schema NOT IN ('information_schema', 'main')")
                if not isinstance(got, dict):
                    d = _cmp([r for r in got if not str(r[2]).startswith("_fs_")], [[t[0], t[1], t[2], "BASE TABLE"] for t in ot] + [[v[0], v[1], v[2], "VIEW"] for v in ov])
                    if d:
                        return v_(f"cross-database/information_schema.tables/{step_kind}", "another database's information_schema.tables, read through a qualified name, lists exactly that database's objects", {"reader_database": db, "read": other, **d})
                    # the comments must be the same whichever way they are read: qualified from here, or from a session of that database
                    gotc = q(cur, f"SELECT table_schema, table_name, comment FROM {other}.information_schema.tables WHERE table_catalog = '{other}' AND table_schema NOT IN ('information_schema', 'main') AND table_type = 'BASE TABLE'")
                    home = q(fs.connect(database=other).cursor(), f"SELECT table_schema, table_name, comment FROM information_schema.tables WHERE table_catalog = '{other}' AND table_schema NOT IN ('information_schema', 'main') AND table_type = 'BASE TABLE'")
                    if not isinstance(gotc, dict) and not isinstance(home, dict):
                        d = _cmp([r for r in gotc if not str(r[1]).startswith("_fs_")], [r for r in home if not str(r[1]).startswith("_fs_")])
                        if d:
                            return v_("cross-database/comment", "another database's table comments read through a qualified information_schema name equal those read from a session of that database", {"reader_database": db, "read": other, **d})
                got = q(cur, f"SELECT table_schema, table_name, column_name, data_type FROM {other}.information_schema.columns WHERE table_catalog = '{other}' AND table_schema NOT IN ('information_schema', 'main')")
                if not isinstance(got, dict):
                    want_c = [[t[1], t[2], c, TYPES[ty][0]] for t in ot for c, ty, nn in m.tables[t]["cols"]]
                    d = _cmp([r for r in got if (other, r[0], r[1]) in m.tables], want_c)
                    if d:
                        return v_(f"cross-database/information_schema.columns/{step_kind}", "another database's information_schema.columns, read through a qualified name, describes exactly that database's columns", {"reader_database": db, "read": other, **d})
            # --- SHOW in database / schema scope
            for show, rows_want in (("TABLES", [[t[2], "TABLE", t[0], t[1]] for t in dbt]), ("OBJECTS", [[t[2], "TABLE", t[0], t[1]] for t in dbt] + [[v[2], "VIEW", v[0], v[1]] for v in dbv])):
                got = q(cur, f"SHOW {show} IN DATABASE {db}")
                if isinstance(got, dict):
                    return v_(f"observer-raises/show-{show.lower()}/{step_kind}", "a metadata query failed", got)
                leak = [r[1:5] for r in got if str(r[1]).startswith("_fs_")]
                if leak:
                    return v_(f"internal-object-listed/show-{show.lower()}-in-database", "no internal table of fakesnow is listed", {"rows": leak})
                d = _cmp([r[1:5] for r in got if str(r[4]).lower() != "information_schema"], rows_want)
                if d:
                    return v_(f"show-{show.lower()}/database-scope/{step_kind}", f"SHOW {show} IN DATABASE lists exactly the current objects", d)
                for sc in sorted(s for dd, s in m.schemas if dd == db):
                    got = q(cur, f"SHOW {show} IN SCHEMA {db}.{sc}")
                    if isinstance(got, dict):
                        return v_(f"observer-raises/show-{show.lower()}/{step_kind}", "a metadata query failed", got)
                    d = _cmp([r[1:5] for r in got], [r for r in rows_want if r[3] == sc])
                    if d:
                        return v_(f"show-{show.lower()}/schema-scope/{step_kind}", f"SHOW {show} IN SCHEMA lists exactly the current objects", d)
            # --- SHOW PRIMARY KEYS in database / schema scope
            keys_want = [[t[0], t[1], t[2], c] for t in dbt for c in m.tables[t].get("pk", [])]
            for scope, want_rows in [("", keys_want), (f" IN DATABASE {db}", keys_want)] + [(f" IN SCHEMA {db}.{sc}", [r for r in keys_want if r[1] == sc]) for sc in sorted(s for dd, s in m.schemas if dd == db)]:
                got = q(cur, f"SHOW PRIMARY KEYS{scope}")
                if isinstance(got, dict):
                    return v_(f"observer-raises/show-primary-keys/{step_kind}", "a metadata query failed", {"scope": scope, **got})
                d = _cmp([r[1:5] for r in got], want_rows)
                if d:
                    return v_(f"show-primary-keys/{'schema' if 'SCHEMA' in scope else 'database'}-scope/{step_kind}", "SHOW PRIMARY KEYS lists exactly the key columns of the current tables in its scope", {"scope": scope.strip(), **d})
            got = q(cur, f"SHOW SCHEMAS IN DATABASE {db}")
            if not isinstance(got, dict):
                names = sorted(r[1] for r in got if str(r[1]).lower() != "information_schema")
                if names != sorted(s for dd, s in m.schemas if dd == db):
                    return v_(f"show-schemas/{step_kind}", "SHOW SCHEMAS lists exactly the current schemas", {"observed": names, "expected": sorted(s for dd, s in m.schemas if dd == db)})
            # --- per table: DESCRIBE TABLE and the description of SELECT *
            for t in dbt:
                name = ".".join(t)
                got = q(cur, f"DESCRIBE TABLE {name}")
                if isinstance(got, dict):
                    return v_(f"observer-raises/describe-table/{step_kind}", "DESCRIBE TABLE failed for an existing table", got)
                want = [[c, TYPES[ty][4], "COLUMN", "N" if nn else "Y"] for c, ty, nn in m.tables[t]["cols"]]
                if [r[:4] for r in got] != want:
                    field = "columns" if [r[0] for r in got] != [r[0] for r in want] else "type" if [r[1] for r in got] != [r[1] for r in want] else "null?"
                    return v_(f"describe-table/{field}/{step_kind}", "DESCRIBE TABLE shows the columns as most recently declared", {"table": name, "observed": [r[:4] for r in got], "expected": want})
                pkcols = m.tables[t].get("pk", [])
                flags = [r[5] for r in got]
                if hz.get("describe_pk_flag") and flags != ["Y" if c in pkcols else "N" for c, ty, nn in m.tables[t]["cols"]]:
                    return v_(f"describe-table/primary-key-flag/{step_kind}", "DESCRIBE TABLE marks exactly the PRIMARY KEY columns", {"table": name, "observed": flags, "primary_key": pkcols})
                got = q(cur, f"SHOW PRIMARY KEYS IN TABLE {name}")
                if isinstance(got, dict):
                    return v_(f"observer-raises/show-primary-keys-in-table/{step_kind}", "a metadata query failed", got)
                d = _cmp([r[1:5] for r in got], [[t[0], t[1], t[2], c] for c in pkcols])
                if d:
                    return v_(f"show-primary-keys/table-scope/{step_kind}", "SHOW PRIMARY KEYS IN TABLE lists exactly that table's key columns", {"table": name, **d})
                try:
                    cur.execute(f"SELECT * FROM {name}")
                    desc = [[x.name, x.type_code, x.precision, x.scale] for x in cur.description]
                except BaseException as e:  # noqa: BLE001
                    return v_(f"observer-raises/select-star-description/{step_kind}", "description of SELECT * failed", {"table": name, "error": exc_record(e)})
                wantd = [[c, TYPES[ty][5]] for c, ty, nn in m.tables[t]["cols"]]
                if [r[:2] for r in desc] != wantd:
                    return v_(f"select-star-description/{step_kind}", "the description of SELECT * agrees with the declared columns", {"table": name, "observed": desc, "expected": wantd})
                for r, (c, ty, nn) in zip(desc, m.tables[t]["cols"]):
                    info = TYPES[ty]
                    if info[0] == "NUMBER" and (r[2], r[3]) != (info[2], info[3]):
                        return v_(f"select-star-description/precision/{step_kind}", "precision and scale in the description of SELECT *", {"table": name, "column": c, "observed": r, "expected": [info[2], info[3]]})
            # --- per view: DESCRIBE VIEW names the source's columns, in order, with their types (a declared VARCHAR length is not demanded of a view)
            for vw in dbv:
                src = m.views[vw]
                if src not in m.tables or m.view_gen.get(vw) != m.table_gen.get(src, 0) or vw not in m.view_cols:
                    continue  # the source was dropped or re-created since: what the view then shows is not constrained
                got = q(cur, f"DESCRIBE VIEW {'.'.join(vw)}")
                if isinstance(got, dict):
                    return v_(f"observer-raises/describe-view/{step_kind}", "DESCRIBE VIEW failed for an existing view", got)
                want = [[c, TYPES[ty][4] if TYPES[ty][0] != "TEXT" else "VARCHAR"] for c, ty, nn in m.view_cols[vw]]
                obs = [[r[0], "VARCHAR" if str(r[1]).startswith("VARCHAR") else r[1]] for r in got]
                if obs != want:
                    return v_(f"describe-view/{'columns' if [r[0] for r in obs] != [r[0] for r in want] else 'type'}/{step_kind}", "DESCRIBE VIEW shows the columns of the view's source", {"view": ".".join(vw), "observed": obs, "expected": want})
        # --- account scope (from a session without a current database)
        cur = (fs.connect() if hz["account_scope_without_database"] else fs.connect(database=sorted(m.dbs)[0])).cursor()
        for show, rows_want in (("TABLES", [[t[2], "TABLE", t[0], t[1]] for t in sorted(m.tables)]), ("OBJECTS", [[t[2], "TABLE", t[0], t[1]] for t in sorted(m.tables)] + [[v[2], "VIEW", v[0], v[1]] for v in sorted(m.views)])):
            got = q(cur, f"SHOW {show} IN ACCOUNT")
            if isinstance(got, dict):
                return v_(f"observer-raises/show-{show.lower()}-account" + ("-without-database" if hz["account_scope_without_database"] else f"/{step_kind}"), "a metadata query failed", got)
            rows = [r[1:5] for r in got if str(r[4]).lower() not in ("information_schema", "main") or str(r[1]).startswith("_fs_")]
            leak = [r for r in rows if str(r[0]).startswith("_fs_")]
            if leak:
                if hz["internal_leak"]:
                    return v_(f"internal-object-listed/show-{show.lower()}-in-account", "no internal table of fakesnow is listed", {"rows": leak})
                rows = [r for r in rows if not str(r[0]).startswith("_fs_")]
            d = _cmp(rows, rows_want)
            if d:
                return v_(f"show-{show.lower()}/account-scope/{step_kind}", f"SHOW {show} IN ACCOUNT lists exactly the current objects", d)
    return None


def _recreated(ops: list[dict[str, Any]], op: dict[str, Any]) -> bool:
    """Was a table or view of this name dropped earlier in the history?"""
    for o in ops:
        if o is op:
            return False
        if o.get("ddl") in ("drop_table", "drop_view") and o.get("fq") == op.get("fq"):
            return True
        if o.get("ddl") == "drop_schema" and o.get("schema") == (op.get("fq") or [None, None])[:2]:
            return True
    return False


def _cmp(got: list[Any], want: list[Any]) -> dict[str, Any] | None:
    a, b = sorted(got, key=sort_key), sorted(want, key=sort_key)
    if a == b:
        return None
    return {"unexpected": [r for r in a if r not in b][:4], "missing": [r for r in b if r not in a][:4]}


def run(case: dict[str, Any]) -> dict[str, Any]:
    sim = core.begin()
    cfg = case["config"]
    world = World(sim, **cfg.get("fs_opts", {}))
    m = MetaModel()
    probes: dict[str, int] = {}
    kinds: list[str] = []
    violation = None
    n = 0
    observers: dict[str, Any] = {}
    try:
        for op in case["ops"]:
            if op["k"] == "exec" and op["s"] not in world.conns:
                continue
            sim.set_session(op["s"])
            sim.note(sim.tick(), op["s"], op["k"], op.get("ddl"))
            out = world.apply(op)
            n += 1
            kind = op.get("ddl") or op["k"]
            if op["k"] == "exec" and op["ddl"] == "alter":
                kind = "alter_" + op["sub"]
            kinds.append(kind)
            if op["k"] == "restart":
                probes["restart"] = probes.get("restart", 0) + 1
                observers.clear()
                continue
            if not out.get("ok"):
                violation = v_(f"ddl-raises/{kind}/{out.get('exc')}", "a generated DDL statement failed", {"op": {k: op.get(k) for k in ("s", "sql", "database", "schema")}, "outcome": out})
                break
            m.apply(op)
            if op["k"] == "exec":
                probes["op_" + ("alter" if kind.startswith("alter") else kind)] = probes.get("op_" + ("alter" if kind.startswith("alter") else kind), 0) + 1
            if len(m.dbs) > 1:
                probes["two_databases"] = probes.get("two_databases", 0) + 1
            if op["k"] == "exec" and op.get("fq") and world.conns[op["s"]].database != op["fq"][0]:
                probes["cross_database_ddl"] = probes.get("cross_database_ddl", 0) + 1
            if op["k"] == "connect" and len(world.conns) < (2 if cfg["two"] else 1):
                continue  # after a restart wait until every session is back before observing
            violation = observe_and_check(world, m, cfg["hazards"], kind, observers)
            probes["observer_passes"] = probes.get("observer_passes", 0) + 1
            if violation:
                sig = violation["signature"]
                hazard_step = kind in ("alter_rename_col", "alter_rename_table", "ctas", "clone") or (kind == "create_table" and (" OR REPLACE " in op["sql"] or _recreated(case["ops"], op)))
                # the known stale-comment finding is about re-creating WITHOUT a comment; a comment that was declared (even '') must show
                declared = kind == "create_table" and op.get("comment") is not None and sig.startswith("information_schema.tables/comment")
                if hazard_step and not declared and not sig.startswith("describe-table/primary-key-flag") and sig.endswith("/" + kind) and sig.split("/")[0] in ("information_schema.tables", "information_schema.columns", "describe-table", "select-star-description", "show-primary-keys"):
                    violation["signature"] = f"stale-meta/{'replace-or-recreate' if kind == 'create_table' else kind}/" + "/".join(sig.split("/")[:-1])
                violation["detail"] = {"after": {k: op.get(k) for k in ("s", "sql", "k")}, "step": n, **(violation["detail"] if isinstance(violation["detail"], dict) else {"info": violation["detail"]})}
                break
        sim.set_session("main")
        nontrivial = any(k.startswith(("drop", "alter", "ctas", "clone", "restart", "comment")) for k in kinds) and "create_table" in kinds
        return {
            "violations": [violation] if violation else [],
            "digest": sim.digest(),
            "steps": sim.engine_events,
            "ops": n,
            "probes": probes,
            "faults": {"restart": probes.get("restart", 0)},
            "strategy": "serial",
            "fingerprint": fp(kinds),
            "nontrivial": nontrivial,
        }
    finally:
        world.close()
        core.end()
