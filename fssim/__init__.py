"""fssim - deterministic simulation with fault injection for tekumara/fakesnow.

See /verif/DESIGN.md.  Import order matters: `fssim.core.install()` must run before
`fakesnow` is imported so that the engine-call seam (duckdb.connect) is in place.
"""

VERSION = 1
