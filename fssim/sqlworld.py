"""Serial (statement-level) execution of a generated history against World and Model, with the
per-operation and snapshot oracles shared by the ctx / dml / fail / connect / vars profiles."""

from __future__ import annotations

import json
from typing import Any

from . import core
from .model import Model
from .runner import fp
from .world import World, norm_rows, sort_key

PG_ERR = "ProgrammingError"


def qual_level(st: dict[str, Any]) -> str:
    ref = st.get("ref")
    if not ref:
        if "db" in st:
            return "q1" if st.get("db") else "q0"
        return "-"
    return "q" + str(sum(1 for p in ref[:-1] if p is not None))


class Oracle:
    """Compares what happened with what the model allows; first mismatch ends the run."""

    def __init__(self, default_prop: str, clause_props: dict[str, str] | None = None) -> None:
        self.default_prop = default_prop
        self.clause_props = clause_props or {}
        self.violation: dict[str, Any] | None = None
        self.current_op: dict[str, Any] | None = None
        self.current_pred_ok: bool | None = None
        self.fail_prop: str | None = None

    def flag(self, clause: str, signature: str, detail: Any, prop: str | None = None) -> None:
        if self.violation is None:
            if self.fail_prop and self.current_pred_ok is False and clause in ("ctx-attrs", "ctx-function", "catalog", "effect", "variables"):
                # the statement was predicted to fail, so any change it made belongs to "failures change nothing"
                prop = self.fail_prop
                signature = "failed-statement-changed/" + signature
            label = (self.current_op or {}).get("label") or ((self.current_op or {}).get("st") or {}).get("label")
            if label:
                signature = f"{label}/{signature}"
            self.violation = {
                "property": prop or self.clause_props.get(clause, self.default_prop),
                "signature": signature,
                "clause": clause,
                "detail": detail,
            }

    # -- outcome of one op against the model's prediction
    def check_outcome(self, op: dict[str, Any], pred: dict[str, Any], out: dict[str, Any]) -> None:
        st = op.get("st", {"t": op["k"]})
        t = st["t"]
        if t == "raw_fail":
            t = "raw:" + "_".join(str(op.get("sql", "")).upper().split()[:2])
        ql = qual_level(st)
        if pred["ok"] and not out.get("ok"):
            cls = out.get("exc")
            if cls != PG_ERR and not str(out.get("mod", "")).startswith("snowflake"):
                self.flag("raw-exception", f"raw-exception/{t}/{cls}", {"op": op_brief(op), "outcome": out})
            else:
                self.flag("unexpected-failure", f"unexpected-failure/{t}/{ql}/{out.get('errno')}", {"op": op_brief(op), "outcome": out})
            return
        if not pred["ok"]:
            if out.get("ok"):
                e0 = pred["errs"][0][0]
                ql = ("second-table/" if str(pred.get("why", "")).startswith("second-table") else "") + ql
                self.flag("should-fail", f"should-fail/{t}/{ql}/{e0}", {"op": op_brief(op), "expected_errors": pred["errs"], "why": pred.get("why"), "outcome": out})
                return
            if pred.get("anyclass"):
                return
            want_cls = pred.get("cls", PG_ERR)
            if out.get("exc") != want_cls:
                clause = "raw-exception" if not str(out.get("mod", "")).startswith("snowflake") else "error-class"
                self.flag(clause, f"{clause}/{t}/{out.get('exc')}", {"op": op_brief(op), "outcome": out, "expected_errors": pred["errs"], "expected_class": want_cls})
                return
            if op["k"] == "exec" and want_cls != PG_ERR and out.get("cursor_sqlstate") not in (None, out.get("sqlstate")):
                # the execute that just failed for another reason (closed connection) still reset the previous state
                self.flag("sqlstate-attr", f"sqlstate-attr/stale-after-{out.get('exc')}/{t}", {"op": op_brief(op), "outcome": out})
                return
            if op["k"] == "exec" and want_cls == PG_ERR and out.get("cursor_sqlstate") != out.get("sqlstate"):
                self.flag("sqlstate-attr", f"sqlstate-attr/{t}", {"op": op_brief(op), "outcome": out})
                return
            pair = [out.get("errno"), out.get("sqlstate")]
            want_msg = (op.get("st") or {}).get("msg")
            if want_msg and want_msg not in str(out.get("msg")):
                self.flag("error-message", f"error-message/{t}", {"op": op_brief(op), "outcome": out, "expected_message": want_msg})
                return
            if pred.get("anycode"):
                return
            if pair not in pred["errs"]:
                ql = ("second-table/" if str(pred.get("why", "")).startswith("second-table") else "") + ql
                self.flag("error-code", f"error-code/{t}/{ql}/want={pred['errs'][0][0]}/got={pair[0]}", {"op": op_brief(op), "outcome": out, "expected_errors": pred["errs"], "why": pred.get("why")})
            return
        # both ok
        if op["k"] == "connect":
            if out.get("database") != pred.get("database") or out.get("schema") != pred.get("schema"):
                self.flag("connect-names", "connect-names", {"op": op_brief(op), "expected": pred, "outcome": out})
            return
        if op["k"] == "exec" and out.get("sqlstate") is not None:
            self.flag("sqlstate-attr", f"sqlstate-attr/not-reset/{t}", {"op": op_brief(op), "outcome": out})
            return
        if op["k"] == "episode":
            if out.get("problems"):
                self.flag("episode", f"episode/{op['name']}/{out['problems'][0]}", {"op": op_brief(op), "problems": out["problems"]}, prop=op.get("prop"))
            return
        if op.get("effect_only"):
            return  # e.g. executemany: fakesnow documents that its response differs from the connector's; the effect is checked on the snapshot
        if pred.get("rows") is not None:
            got = out.get("rows")
            exp = pred["rows"]
            if got and isinstance(got[0], dict) and got[0].get("t") == "dictrow":
                keys = [[kv[0] for kv in r["v"]] for r in got]
                got = [[kv[1] for kv in r["v"]] for r in got]
                if pred.get("cols") is not None and any(k != pred["cols"] for k in keys):
                    self.flag("column-names", f"column-names/{t}", {"op": op_brief(op), "expected": pred["cols"], "observed": keys[0]})
                    return
            if pred.get("ctx"):
                d, s = exp[0]
                g = (got or [[None, None]])[0]
                okd = g[0] == d if d is not None else True
                oks = g[1] == s if s is not None else g[1] in (None, "main", "MAIN")
                if not (okd and oks):
                    self.flag("ctx-function", f"ctx-function/db={'ok' if okd else 'bad'}/schema={'ok' if oks else 'bad'}", {"op": op_brief(op), "expected": exp, "observed": got})
                return
            a = got if pred.get("ordered") else sorted(got or [], key=sort_key)
            b = exp if pred.get("ordered") else sorted(exp, key=sort_key)
            from .world import norm_rows

            b = norm_rows(b)
            if a != b:
                clause = "status-row" if t in ("insert", "insert_select", "update", "delete") or "cols" in pred and pred["cols"] == ["status"] else "rows"
                self.flag(clause, f"{clause}/{t}/{ql}", {"op": op_brief(op), "expected": b[:12], "observed": (a or [])[:12]})
                return
        if pred.get("rowcount") is not None and out.get("rowcount") != pred["rowcount"]:
            self.flag("rowcount", f"rowcount/{t}/expected={'0' if pred['rowcount'] == 0 else 'n'}/observed={out.get('rowcount')}" if pred["rowcount"] == 0 else f"rowcount/{t}",
                      {"op": op_brief(op), "expected": pred["rowcount"], "observed": out.get("rowcount")})

    # -- effect: observable snapshot equals the model's
    def check_snapshot(self, op: dict[str, Any], model: Model, snap: dict[str, Any]) -> None:
        ms = model.snapshot()
        t = op.get("st", {"t": op["k"]})["t"]
        if snap["dbs"] != ms["dbs"]:
            self.flag("catalog", f"catalog/databases/{t}", {"op": op_brief(op), "expected": ms["dbs"], "observed": snap["dbs"]})
            return
        if snap["schemas"] != ms["schemas"]:
            self.flag("catalog", f"catalog/schemas/{t}", {"op": op_brief(op), "expected": ms["schemas"], "observed": snap["schemas"]})
            return
        got_t = {k: [c[0] for c in v] for k, v in snap["tables"].items()}
        if got_t != ms["tables"]:
            self.flag("catalog", f"catalog/tables/{t}/{qual_level(op.get('st', {}))}", {"op": op_brief(op), "expected": ms["tables"], "observed": got_t})
            return
        got_v = sorted(snap["views"])
        if got_v != sorted(ms["views"]):
            self.flag("catalog", f"catalog/views/{t}", {"op": op_brief(op), "expected": sorted(ms["views"]), "observed": got_v})
            return
        if snap["rows"] != ms["rows"]:
            diff = {k: {"expected": ms["rows"].get(k), "observed": snap["rows"].get(k)} for k in sorted(set(ms["rows"]) | set(snap["rows"])) if ms["rows"].get(k) != snap["rows"].get(k)}
            self.flag("effect", f"effect/{t}/{qual_level(op.get('st', {}))}", {"op": op_brief(op), "diff": {k: v for k, v in list(diff.items())[:3]}})

    # -- every session reports the model's context
    def check_sessions(self, op: dict[str, Any], model: Model, world: World) -> None:
        t = op.get("st", {"t": op["k"]})["t"]
        for sid in sorted(world.conns):
            conn = world.conns[sid]
            if conn.is_closed():
                continue
            d, s = model.session_ctx(sid)
            req = model.sessions[sid]
            whose = "own" if sid == op["s"] else "other"
            okd = conn.database == d if d is not None else conn.database in (None, req["req_db"])
            oks = conn.schema == s if s is not None else conn.schema in (None, req["req_schema"])
            if not (okd and oks):
                self.flag("ctx-attrs", f"ctx-attrs/{t}/{whose}/db={'ok' if okd else 'bad'}/schema={'ok' if oks else 'bad'}",
                          {"op": op_brief(op), "session": sid, "expected": [d, s], "observed": [conn.database, conn.schema]})
                return
            with world.sim.quiet():
                try:
                    cur = conn.cursor()
                    cur.execute("SELECT CURRENT_DATABASE(), CURRENT_SCHEMA()")
                    g = list(cur.fetchall()[0])
                except BaseException as e:  # noqa: BLE001
                    g = ["!" + type(e).__name__, None]
            okd = g[0] == d if d is not None else True
            oks = g[1] == s if s is not None else True
            if not (okd and oks):
                self.flag("ctx-function", f"ctx-function/{t}/{whose}/db={'ok' if okd else 'bad'}/schema={'ok' if oks else 'bad'}",
                          {"op": op_brief(op), "session": sid, "expected": [d, s], "observed": g})
                return


def _check_variables(self: Oracle, op: dict[str, Any], model: Model, world: World) -> None:
    """Every live session still sees exactly its own variables (read through the public API, quietly)."""
    t = op.get("st", {"t": op["k"]})["t"]
    names = sorted({n for s in model.sessions.values() for n in s["vars"]})
    for sid in sorted(world.conns):
        conn = world.conns[sid]
        if conn.is_closed() or model.sessions[sid].get("closed"):
            continue
        for n in names:
            with world.sim.quiet():
                try:
                    cur = conn.cursor()
                    cur.execute(f"SELECT ${n}")
                    got: Any = cur.fetchall()[0][0]
                except BaseException as e:  # noqa: BLE001
                    got = ("!", type(e).__name__)
            want = model.sessions[sid]["vars"].get(n, ("!", "ProgrammingError"))
            if got != want and not (isinstance(want, tuple) and isinstance(got, tuple) and got[0] == "!"):
                whose = "own" if sid == op["s"] else "other"
                self.flag("variables", f"variables/{t}/{whose}", {"op": op_brief(op), "session": sid, "variable": n, "expected": want, "observed": got},
                          prop="C15" if not op.get("st", {}).get("t") == "raw_fail" else None)
                return


Oracle.check_variables = _check_variables  # type: ignore[attr-defined]


def op_brief(op: dict[str, Any]) -> dict[str, Any]:
    return {k: v for k, v in op.items() if k in ("s", "k", "sql", "database", "schema", "cur", "params")}


def predict(model: Model, op: dict[str, Any]) -> dict[str, Any]:
    if op["k"] == "connect":
        return model.connect(op["s"], op.get("database"), op.get("schema"))
    if op["k"] in ("exec", "write_pandas", "executemany"):
        if op["s"] not in model.sessions:
            return {"ok": False, "errs": [], "why": "no session"}
        return model.apply(op["s"], op["st"])
    if op["k"] in ("commit", "rollback"):
        r = model.apply(op["s"], {"t": op["k"]})
        if r["ok"]:
            r = {"ok": True, "rows": None, "rowcount": None}
        return r
    if op["k"] == "restart":
        model.restart()
        return {"ok": True, "rows": None, "rowcount": None}
    if op["k"] == "episode":
        return {"ok": True, "rows": None, "rowcount": None}
    if op["k"] == "close":
        model.close(op["s"])
        return {"ok": True, "rows": None, "rowcount": None}
    raise core.HarnessError(f"sqlworld cannot predict op kind {op['k']}")


def run_serial_case(case: dict[str, Any], oracle: Oracle, *, snapshot_every: bool = True, sessions_every: bool = True,
                    focus: Any = None, min_focus: int = 1, fail_profile: bool = False, check_vars: bool = False,
                    tolerate: tuple[str, ...] = (), ext_stable: Any = None) -> dict[str, Any]:
    """Execute case['ops'] in list order; after every op run the oracles. Returns the result record."""
    sim = core.begin()
    cfg = case.get("config", {})
    opts = cfg.get("fs_opts", {})
    world = World(sim, **opts)
    model = Model(create_db=opts.get("create_database_on_connect", True), create_schema=opts.get("create_schema_on_connect", True))
    probes: dict[str, int] = {}
    kinds: list[str] = []
    n_done = 0
    focus_hits = 0
    extra_violations: list[dict[str, Any]] = []
    try:
        for op in case["ops"]:
            if op["k"] not in ("connect", "restart") and op["s"] not in world.conns:
                continue  # its connect was removed by the minimiser: the op is void
            sim.set_session(op["s"])
            inv = sim.tick()
            pred = predict(model, op)  # independent of the world: the model only sees the op
            is_ddl = op["k"] == "exec" and str(op.get("sql", "")).lstrip().upper().startswith(("CREATE", "ALTER", "COMMENT", "DROP"))
            meta_before = world_meta(world) if fail_profile and not pred["ok"] and is_ddl else None
            ext_before = world_ext(world) if ext_stable is not None and ext_stable(op) else None
            out = world.apply(op)
            if ext_before is not None:
                ext_after = world_ext(world)
                lost = {k: v for k, v in ext_before.items() if k in ext_after and ext_after[k] != v}
                if lost:
                    oracle.current_op = op
                    oracle.flag("existing-data", f"existing-data/side-tables/{op['k']}", {"op": op_brief(op), "before": {k: ext_before[k] for k in list(lost)[:2]}, "after": {k: ext_after[k] for k in list(lost)[:2]}})
            sim.note(inv, op["s"], op["k"], (op.get("st") or {}).get("t"), out.get("ok"), out.get("errno"), fp(out.get("rows")) if out.get("rows") is not None else None)
            oracle.current_op = op
            oracle.current_pred_ok = bool(pred["ok"])
            n_done += 1
            t = (op.get("st") or {"t": op["k"]})["t"]
            kinds.append(t + ("!" if not pred["ok"] else ""))
            probes[f"op_{t}"] = probes.get(f"op_{t}", 0) + 1
            if not pred["ok"]:
                probes["predicted_error"] = probes.get("predicted_error", 0) + 1
                e0 = pred["errs"][0][0] if pred["errs"] else 0
                probes[f"predicted_{e0}"] = probes.get(f"predicted_{e0}", 0) + 1
            if focus is not None and focus(op, pred):
                focus_hits += 1
            if not pred["ok"] and op["s"] in model.sessions:
                if model.sessions[op["s"]].get("txn") is not None:
                    probes["fail_in_txn"] = probes.get("fail_in_txn", 0) + 1
                if model.sessions[op["s"]].get("closed"):
                    probes["use_after_close"] = probes.get("use_after_close", 0) + 1
            if pred["ok"] and pred.get("rowcount") == 0 and t in ("update", "delete", "insert_select"):
                probes["zero_row_dml"] = probes.get("zero_row_dml", 0) + 1
            if op.get("dict") and t in ("insert", "insert_select", "update", "delete"):
                probes["dict_cursor_dml"] = probes.get("dict_cursor_dml", 0) + 1
            oracle.check_outcome(op, pred, out)
            if oracle.violation is None and snapshot_every:
                oracle.check_snapshot(op, model, world.observe(with_sessions=False))
            if oracle.violation is None and sessions_every:
                oracle.check_sessions(op, model, world)
            if oracle.violation is None and meta_before is not None and not out.get("ok"):
                meta_after = world_meta(world)
                if meta_after != meta_before:
                    diff = {k: {"before": meta_before.get(k), "after": meta_after.get(k)} for k in sorted(set(meta_before) | set(meta_after)) if meta_before.get(k) != meta_after.get(k)}
                    oracle.flag("effect", f"metadata/{t}", {"op": op_brief(op), "changed": dict(list(diff.items())[:4])})
            if oracle.violation is None and (check_vars or (fail_profile and (not pred["ok"] or t in ("set_var", "unset_var") or op is case["ops"][-1]))):
                oracle.check_variables(op, model, world)
            if oracle.violation is not None:
                oracle.violation["detail"]["op_index"] = n_done - 1
                if tolerate and oracle.violation["signature"].startswith(tolerate):
                    # a listed hazard fired: model and system have diverged, but what comes AFTER it is still worth
                    # looking at - continue with model-free self-consistency checks (DESIGN.md section 4, "after-known")
                    extra = after_known(case["ops"][case["ops"].index(op) + 1:], world, sim, oracle.default_prop)
                    probes["after_known_ops"] = probes.get("after_known_ops", 0) + extra["ops"]
                    n_done += extra["ops"]
                    if extra["violation"] is not None:
                        extra_violations.append(extra["violation"])
                break
        sim.set_session("main")
        final = fp(model.snapshot())
        cover = sorted(set(getattr(oracle, "cover", [])))
        faults = {
            "failing_statement": probes.get("predicted_error", 0),
            "statement_without_needed_context": probes.get("predicted_90105", 0) + probes.get("predicted_90106", 0),
            "failing_statement_inside_open_transaction": probes.get("fail_in_txn", 0),
            "use_after_close": probes.get("use_after_close", 0),
            "close": probes.get("op_close", 0),
            "instance_restart": probes.get("op_restart", 0),
            "rollback": probes.get("op_rollback", 0),
        }
        return {
            "faults": {k: v for k, v in faults.items() if v},
            "cover": cover,
            "violations": ([oracle.violation] if oracle.violation else []) + extra_violations,
            "digest": sim.digest(),
            "steps": sim.engine_events,
            "ops": n_done,
            "probes": probes,
            "strategy": "serial",
            "fingerprint": fp(kinds),
            "interleaving": fp([o["s"] for o in case["ops"]]),
            "nontrivial": focus_hits >= min_focus if focus is not None else n_done > 2,
            "state_hash": final,
        }
    finally:
        world.close()
        core.end()


def _api_ctx(world: World, sid: str) -> list[Any]:
    conn = world.conns[sid]
    with world.sim.quiet():
        try:
            cur = conn.cursor()
            cur.execute("SELECT CURRENT_DATABASE(), CURRENT_SCHEMA()")
            g = list(cur.fetchall()[0])
        except BaseException as e:  # noqa: BLE001
            g = ["!" + type(e).__name__, None]
    return [conn.database, conn.schema, g[0], g[1]]


def after_known(ops: list[dict[str, Any]], world: World, sim: core.Sim, prop: str) -> dict[str, Any]:
    """Model-free continuation after a listed hazard fired. Only statements about the system's own consistency:
    (1) after a successful USE the attributes and the CURRENT_* functions agree; (2) a failing statement changes neither
    the snapshot nor its session's context; (3) rows inserted through a not fully qualified name land in the table the
    session's own CURRENT_DATABASE()/CURRENT_SCHEMA() named before the statement."""
    n = 0
    for op in ops:
        if op["k"] != "exec" or op["s"] not in world.conns or world.conns[op["s"]].is_closed():
            if op["k"] == "connect":
                world.apply(op)
            continue
        st = op.get("st") or {}
        t = st.get("t")
        sid = op["s"]
        before_ctx = _api_ctx(world, sid)
        before = world.observe(with_sessions=False)
        sim.set_session(sid)
        out = world.apply(op)
        n += 1
        after_ctx = _api_ctx(world, sid)
        after = world.observe(with_sessions=False)
        brief = {"op": op_brief(op), "context_before": before_ctx, "context_after": after_ctx}
        if not out.get("ok"):
            if after != before or after_ctx != before_ctx:
                return {"ops": n, "violation": {"property": prop, "signature": f"after-known/failed-statement-changed/{t}", "clause": "a failing statement changes nothing", "detail": brief}}
            continue
        if t == "use_schema" and (after_ctx[1] != after_ctx[3] or after_ctx[0] != after_ctx[2]):
            return {"ops": n, "violation": {"property": prop, "signature": "after-known/self-consistency/use_schema", "clause": "after a successful USE SCHEMA conn.database/schema equal CURRENT_DATABASE()/CURRENT_SCHEMA()", "detail": brief}}
        if t == "use_db" and after_ctx[0] != after_ctx[2]:
            return {"ops": n, "violation": {"property": prop, "signature": "after-known/self-consistency/use_db", "clause": "after a successful USE DATABASE conn.database equals CURRENT_DATABASE()", "detail": brief}}
        if t == "insert" and st.get("ref") and (st["ref"][0] is None or st["ref"][1] is None) and before_ctx[2] and before_ctx[3]:
            want = f"{(st['ref'][0] or before_ctx[2]).upper()}.{(st['ref'][1] or before_ctx[3]).upper()}.{st['ref'][2].upper()}"
            changed = sorted(k for k in set(before["rows"]) | set(after["rows"]) if before["rows"].get(k) != after["rows"].get(k))
            if changed != [want]:
                return {"ops": n, "violation": {"property": prop, "signature": "after-known/landing/insert", "clause": "a not fully qualified name denotes the object built from the session's own context",
                                                "detail": {**brief, "expected_table": want, "tables_changed": changed}}}
    return {"ops": n, "violation": None}


def world_ext(world: World) -> dict[str, Any]:
    """The rows of fakesnow's per-database side tables (comments, declared VARCHAR lengths) read through the raw engine -
    the part of 'existing data' that the engine catalog does not show."""
    out: dict[str, Any] = {}
    with world.sim.quiet():
        cur = world.raw_root().cursor()
        try:
            for (d,) in cur.execute("select database_name from duckdb_databases() where not internal").fetchall():
                for t in ("_fs_tables_ext", "_fs_columns_ext"):
                    try:
                        out[f"{d}.{t}"] = sorted(norm_rows(cur.execute(f'select * from "{d}".information_schema.{t}').fetchall()), key=sort_key)
                    except BaseException:  # noqa: BLE001, S110
                        pass  # a database without the side tables (internal ones)
        finally:
            cur.close()
    return out


def world_meta(world: World) -> dict[str, Any]:
    """Snowflake-side metadata as the API reports it (comments, declared VARCHAR lengths), per database, read by
    quiet observer connections whose current database is the one looked at."""
    out: dict[str, Any] = {}
    snap = world.observe(with_rows=False, with_sessions=False)
    with world.sim.quiet():
        for db in snap["dbs"]:
            try:
                cur = world.fs.connect(database=db).cursor()
                for s, t, c in cur.execute("SELECT table_schema, table_name, comment FROM information_schema.tables WHERE table_schema NOT IN ('information_schema', 'main')").fetchall():
                    if not str(t).startswith("_fs_"):
                        out[f"{db}.{s}.{t}#comment"] = c
                for s, t, c, ln in cur.execute("SELECT table_schema, table_name, column_name, character_maximum_length FROM information_schema.columns WHERE table_schema NOT IN ('information_schema', 'main')").fetchall():
                    if not str(t).startswith("_fs_"):
                        out[f"{db}.{s}.{t}.{c}#length"] = ln
            except BaseException as e:  # noqa: BLE001
                out[f"{db}#error"] = type(e).__name__
    return out


def dumps(x: Any) -> str:
    return json.dumps(x, sort_keys=True, default=repr)
