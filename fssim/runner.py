"""Fan-out, known findings, minimisation, replay files and evidence (DESIGN.md sections 4-6, 8)."""

from __future__ import annotations

import concurrent.futures as cf
import copy
import faulthandler
import hashlib
import json
import multiprocessing as mp
import os
import random
import sys
import time
import traceback
from collections import Counter
from typing import Any

VERIF = os.path.dirname(os.path.dirname(os.path.abspath(__file__)))
MASK = (1 << 64) - 1


def splitmix(seed: int, i: int) -> int:
    z = (seed * 0x9E3779B97F4A7C15 + (i + 1) * 0xBF58476D1CE4E5B9) & MASK
    z = ((z ^ (z >> 30)) * 0xBF58476D1CE4E5B9) & MASK
    z = ((z ^ (z >> 27)) * 0x94D049BB133111EB) & MASK
    return (z ^ (z >> 31)) & 0x7FFFFFFFFFFF


def fp(obj: Any) -> str:
    return hashlib.sha256(json.dumps(obj, sort_keys=True, default=repr).encode()).hexdigest()[:16]


# --------------------------------------------------------------------------- known findings


def load_known() -> list[dict[str, Any]]:
    p = os.path.join(VERIF, "known_findings.json")
    if not os.path.exists(p):
        return []
    with open(p) as f:
        return json.load(f).get("findings", [])


def match_known(known: list[dict[str, Any]], prop: str, signature: str) -> dict[str, Any] | None:
    for k in known:
        if k.get("status", "known") != "known" or k["property"] != prop:
            continue
        sig = k["signature"]
        if sig == signature or (sig.endswith("*") and signature.startswith(sig[:-1])):
            return k
    return None


# --------------------------------------------------------------------------- worker side

_PROFILE = None


def _worker_init(profile_name: str) -> None:
    global _PROFILE
    faulthandler.enable()
    sys.path.insert(0, VERIF)
    from . import core, profiles

    core.install()
    _PROFILE = profiles.load(profile_name)


def run_one(profile: Any, case: dict[str, Any]) -> dict[str, Any]:
    """Execute one case; anything the profile did not classify is a harness error."""
    from . import core

    t0 = time.time()
    try:
        res = profile.run(case)
    except core.HarnessError as e:
        res = {"violations": [], "harness_error": f"HarnessError: {e}"}
    except BaseException as e:  # noqa: BLE001
        res = {"violations": [], "harness_error": f"{type(e).__name__}: {e}\n{traceback.format_exc()[-1500:]}"}
    finally:
        core.end()
    res.setdefault("violations", [])
    res["wall"] = time.time() - t0
    return res


def _work_chunk(args: tuple[str, int, str, list[int]]) -> list[dict[str, Any]]:
    prop, seed, tier, idxs = args
    out = []
    for i in idxs:
        rs = splitmix(seed, i)
        rng = random.Random(rs)
        case = _PROFILE.gen(rng, prop, tier)  # type: ignore[union-attr]
        case["run_seed"] = rs
        case["index"] = i
        faulthandler.dump_traceback_later(120, exit=False)
        res = run_one(_PROFILE, case)
        faulthandler.cancel_dump_traceback_later()
        rec = {k: v for k, v in res.items() if k != "log"}
        if not (res["violations"] or res.get("harness_error")):
            rec.pop("fingerprints", None) if len(res.get("fingerprints", [])) > 4000 else None
        rec["index"] = i
        rec["run_seed"] = rs
        mine = [v for v in res["violations"] if v["property"] == prop]
        rec["violations"] = mine
        rec["other_violations"] = [v["property"] + ":" + v["signature"] for v in res["violations"] if v["property"] != prop]
        if mine or res.get("harness_error") or i < 3:
            rec["case"] = case
        out.append(rec)
    return out


def _replay_in_worker(args: tuple[dict[str, Any]]) -> dict[str, Any]:
    (case,) = args
    return run_one(_PROFILE, case)


def _minimise_in_worker(args: tuple[dict[str, Any], str, str, float]) -> dict[str, Any]:
    case, prop, signature, budget = args
    return minimise(_PROFILE, case, prop, signature, budget)


# --------------------------------------------------------------------------- minimisation (ddmin)


def _has(res: dict[str, Any], prop: str, signature: str) -> bool:
    return any(v["property"] == prop and v["signature"] == signature for v in res.get("violations", []))


def minimise(profile: Any, case: dict[str, Any], prop: str, signature: str, budget: float = 25.0) -> dict[str, Any]:
    """Shrink case['ops'] (and whatever the profile offers) while the same signature persists."""
    t_end = time.time() + budget
    best = copy.deepcopy(case)
    tries = 0

    def still(c: dict[str, Any]) -> bool:
        nonlocal tries
        tries += 1
        c = copy.deepcopy(c)
        r = run_one(profile, c)
        if _has(r, prop, signature):
            if "schedule" in r:
                c["schedule"] = r["schedule"]
            return True
        return False

    key = getattr(profile, "shrink_key", "ops")
    ops = best.get(key)
    if isinstance(ops, list) and len(ops) > 1:
        # drop whole sessions first
        for sid in sorted({o.get("s") for o in ops if isinstance(o, dict) and o.get("s")}):
            if time.time() > t_end:
                break
            cand = dict(best)
            cand[key] = [o for o in best[key] if not (isinstance(o, dict) and o.get("s") == sid)]
            if len(cand[key]) < len(best[key]) and cand[key] and still(cand):
                best = cand
        n = 2
        while len(best[key]) >= 2 and time.time() < t_end:
            cur = best[key]
            chunk = max(1, len(cur) // n)
            reduced = False
            for start in range(0, len(cur), chunk):
                if time.time() > t_end:
                    break
                cand = dict(best)
                cand[key] = cur[:start] + cur[start + chunk:]
                if cand[key] and still(cand):
                    best = cand
                    n = max(n - 1, 2)
                    reduced = True
                    break
            if not reduced:
                if chunk == 1:
                    break
                n = min(n * 2, len(cur))
    # schedule: towards fewest pre-emptions
    if isinstance(best.get("schedule"), list) and time.time() < t_end:
        cand = dict(best)
        cand["schedule"] = []
        cand["strategy"] = "explicit"
        if still(cand):
            best = cand
    # ... then merge adjacent slices: remove one context switch at a time while the violation persists
    if isinstance(best.get("schedule"), list) and best.get("strategy") == "explicit" or (isinstance(best.get("schedule"), list) and "sched_seed" in best):
        if best.get("strategy") != "explicit":
            probe = dict(best)
            r0 = run_one(profile, copy.deepcopy(probe))
            if _has(r0, prop, signature) and "schedule" in r0:
                best = dict(best, schedule=r0["schedule"], strategy="explicit")
        progress = best.get("strategy") == "explicit"
        while progress and time.time() < t_end:
            progress = False
            sched = list(best["schedule"])
            for i in range(1, len(sched)):
                if sched[i] != sched[i - 1]:
                    cand = dict(best, schedule=sched[:i] + [sched[i - 1]] + sched[i + 1:], strategy="explicit")
                    if still(cand):
                        switches = lambda x: sum(1 for j in range(1, len(x)) if x[j] != x[j - 1])  # noqa: E731
                        if switches(cand["schedule"]) < switches(sched):
                            best = cand
                            progress = True
                            break
                if time.time() > t_end:
                    break
    if hasattr(profile, "shrink_more"):
        best = profile.shrink_more(best, still, t_end)
    # make the schedule explicit in the final file
    final = run_one(profile, copy.deepcopy(best))
    if "schedule" in final:
        best["schedule"] = final["schedule"]
        best["strategy"] = "explicit"
    if _has(final, prop, signature):
        for v in final["violations"]:
            if v["signature"] == signature and isinstance(v.get("case_update"), dict):
                trial = dict(best, **v["case_update"])  # e.g. pin the single failing crash point
                if _has(run_one(profile, copy.deepcopy(trial)), prop, signature):
                    best = trial
    best["minimised"] = {"tries": tries, "ops_before": len(case.get(key, []) or []), "ops_after": len(best.get(key, []) or [])}
    return best


# --------------------------------------------------------------------------- parent side


def _kill_pool(pool: cf.ProcessPoolExecutor) -> None:
    procs = list(getattr(pool, "_processes", {}).values())
    pool.shutdown(wait=False, cancel_futures=True)
    for p in procs:
        try:
            p.kill()
        except Exception:  # noqa: BLE001, S110
            pass


def write_replay(prop: str, case: dict[str, Any], violation: dict[str, Any]) -> str:
    d = os.path.join(VERIF, "replays")
    os.makedirs(d, exist_ok=True)
    path = os.path.join(d, f"{prop}-{case.get('run_seed', 0)}-{fp(violation['signature'])[:6]}.json")
    from . import VERSION

    with open(path, "w") as f:
        json.dump({"tool": "fssim", "version": VERSION, "property": prop, "violation": violation, "case": case}, f, indent=1, default=repr)
    return path


def run_check(prop: str, profile_name: str, tier: str, seed: int, jobs: int, spec: dict[str, Any]) -> int:
    """Run the seeded batch for one property. Returns the process exit code."""
    t0 = time.time()
    n_runs = spec["runs"][tier]
    wall_cap = spec.get("wall", {}).get(tier, 3600 if tier == "thorough" else 240)
    known = load_known()
    ctx = mp.get_context("fork")
    pool = cf.ProcessPoolExecutor(max_workers=jobs, mp_context=ctx, initializer=_worker_init, initargs=(profile_name,))
    chunk = max(1, min(spec.get("chunk", 8), n_runs // (jobs * 2) or 1))
    chunks = [list(range(s, min(s + chunk, n_runs))) for s in range(0, n_runs, chunk)]
    futs = {pool.submit(_work_chunk, (prop, seed, tier, c)): c for c in chunks}
    recs: list[dict[str, Any]] = []
    harness: list[str] = []
    stopped_early = False
    try:
        for f in cf.as_completed(futs, timeout=wall_cap):
            try:
                recs.extend(f.result())
            except Exception as e:  # noqa: BLE001
                harness.append(f"worker failure on runs {futs[f][:1]}..: {type(e).__name__}: {e}")
    except cf.TimeoutError:
        stopped_early = True
        harness.append(f"batch wall cap {wall_cap}s hit with {sum(1 for f in futs if not f.done())} chunks outstanding")
        _kill_pool(pool)
        pool = cf.ProcessPoolExecutor(max_workers=jobs, mp_context=ctx, initializer=_worker_init, initargs=(profile_name,))
    recs.sort(key=lambda r: r["index"])
    for r in recs:
        if r.get("harness_error"):
            harness.append(f"run {r['index']} seed {r['run_seed']}: {r['harness_error'][:600]}")

    # ---- classify violations
    by_sig: dict[str, list[dict[str, Any]]] = {}
    for r in recs:
        for v in r["violations"]:
            by_sig.setdefault(v["signature"], []).append(r)
    new_viol: list[tuple[str, str]] = []
    n_min = 0
    t_min0 = time.time()
    known_hit: dict[str, int] = {}
    lines: list[str] = []
    for sig in sorted(by_sig):
        rs = by_sig[sig]
        k = match_known(known, prop, sig)
        if k is not None:
            known_hit[k["signature"]] = known_hit.get(k["signature"], 0) + len(rs)
            if os.environ.get("FSSIM_WITNESS") and k.get("witness") and not os.path.exists(os.path.join(VERIF, k["witness"])) and "case" in rs[0]:
                # development aid: produce the committed witness replay of a listed finding (never at check time)
                v0 = next(v for v in rs[0]["violations"] if v["signature"] == sig)
                small = pool.submit(_minimise_in_worker, (rs[0]["case"], prop, sig, 25.0)).result(timeout=180)
                os.makedirs(os.path.join(VERIF, "findings"), exist_ok=True)
                with open(os.path.join(VERIF, k["witness"]), "w") as f:
                    json.dump({"tool": "fssim", "property": prop, "violation": v0, "case": small}, f, indent=1, default=repr)
            continue
        first = rs[0]
        v = next(v for v in first["violations"] if v["signature"] == sig)
        case = first["case"]
        n_min += 1
        if n_min > spec.get("max_minimise", 8) or time.time() - t_min0 > spec.get("minimise_wall", 300):
            # many distinct signatures (typically one defect seen through many clauses): report the rest un-minimised
            path = write_replay(prop, case, v)
            new_viol.append((sig, path))
            lines.append(f"VIOLATION property={prop} replay={path}")
            lines.append(f"  signature: {sig}  (runs: {len(rs)}, first seed {first['run_seed']}, not minimised: budget spent on earlier signatures)")
            continue
        try:
            small = pool.submit(_minimise_in_worker, (case, prop, sig, spec.get("min_budget", 25.0))).result(timeout=180)
        except Exception as e:  # noqa: BLE001
            small = case
            harness.append(f"minimiser failed for {sig}: {type(e).__name__}: {e}")
        try:
            again = pool.submit(_replay_in_worker, (copy.deepcopy(small),)).result(timeout=120)
            reproduced = _has(again, prop, sig)
            if reproduced:
                v = next(x for x in again["violations"] if x["signature"] == sig)
        except Exception as e:  # noqa: BLE001
            reproduced = False
            harness.append(f"replay of minimised case failed for {sig}: {type(e).__name__}: {e}")
        if not reproduced:
            small = case
        path = write_replay(prop, small, v)
        new_viol.append((sig, path))
        lines.append(f"VIOLATION property={prop} replay={path}")
        lines.append(f"  signature: {sig}  (runs: {len(rs)}, first seed {first['run_seed']}, minimised+replayed: {reproduced})")
        lines.append(f"  detail: {json.dumps(v.get('detail'), default=repr)[:600]}")
    # known findings are announced once each, from the committed file (witness or batch hit)
    for k in known:
        if k["property"] == prop and k.get("status", "known") == "known":
            hit = known_hit.get(k["signature"], 0)
            w = replay_witness(pool, k) if k.get("witness") else None
            if hit or w:
                lines.append(f"KNOWN-FINDING: property={prop} {k['what']} [signature {k['signature']}; batch hits {hit}; witness {'reproduces' if w else 'n/a' if w is None else 'no longer reproduces'}]")
            k["_hits"], k["_witness"] = hit, w
    _kill_pool(pool)

    # ---- evidence
    wall = time.time() - t0
    nontrivial = [r for r in recs if r.get("nontrivial")]
    fps = {r.get("fingerprint") for r in nontrivial if r.get("fingerprint") and "fingerprints" not in r}
    for r in recs:
        fps.update(r.get("fingerprints", []))
    n_eval = sum(r.get("evaluations", 1) for r in recs)
    probes: Counter[str] = Counter()
    faults: Counter[str] = Counter()
    strategies: Counter[str] = Counter()
    for r in recs:
        probes.update(r.get("probes", {}))
        faults.update(r.get("faults", {}))
        if r.get("strategy"):
            strategies[r["strategy"]] += 1
    cover: set[str] = set()
    for r in recs:
        cover.update(r.get("cover", []))
    mandatory = spec.get("mandatory_probes", {}).get(tier, spec.get("mandatory_probes", {}).get("any", []))
    for p in mandatory:
        if probes.get(p, 0) == 0 and recs:
            harness.append(f"mandatory probe '{p}' never fired: workload or fault mix does not reach it")
    samples = []
    for r in recs:
        if "case" in r and not r.get("harness_error") and len(samples) < 3:
            c = r["case"]
            samples.append({"run_seed": r["run_seed"], "strategy": c.get("strategy"), "config": c.get("config"),
                            "ops": summarise_ops(c), "outcome": "violation" if r["violations"] else "held"})
    level = spec.get("level", "exploration")
    ev = {
        "property_id": prop,
        "tier": tier,
        "seed": seed,
        "level": level,
        "coverage": {
            "evaluations": n_eval,
            "histories": len(recs),
            "distinct_nontrivial": len(fps),
            "rule": spec["rule"],
            "samples": samples,
            "runs_per_hour": int(n_eval / wall * 3600) if wall > 0 else 0,
            "seeds": {"verif_seed": seed, "first_run_seed": recs[0]["run_seed"] if recs else None, "last_run_seed": recs[-1]["run_seed"] if recs else None},
            "sim_steps": sum(r.get("steps", 0) for r in recs),
            "sim_time_note": "logical time only: fakesnow has no clock or timer; one step = one engine call or transport exchange",
            "ops_executed": sum(r.get("ops", 0) for r in recs),
            "faults_fired": dict(sorted(faults.items())),
            "preemptions": sum(r.get("preemptions", 0) for r in recs),
            "distinct_interleavings": len({r.get("interleaving") for r in recs if r.get("interleaving")}),
            "distinct_final_states": len({r.get("state_hash") for r in recs if r.get("state_hash")}),
            "strategies": dict(sorted(strategies.items())),
            "probes": dict(sorted(probes.items())),
            **({"cover_items_hit": len(cover), "cover_items_total": spec.get("cover_total"), "cover_items_sample": sorted(cover)[:12]} if cover else {}),
            "components_real": spec.get("components_real", []),
            "components_stubbed": spec.get("components_stubbed", []),
            "known_findings_hit": {k["signature"]: {"batch_hits": k.get("_hits", 0), "witness_reproduces": k.get("_witness")} for k in known if k["property"] == prop and k.get("status", "known") == "known"},
            "new_violation_signatures": [s for s, _ in new_viol],
            "harness_errors": harness[:20],
            "stopped_early": stopped_early,
            "jobs": jobs,
            "bounds": spec.get("bounds", ""),
            **({"exhaustive": True} if spec.get("exhaustive") else {}),
        },
        "assumptions": spec.get("assumptions", []),
        "wall_s": round(wall, 2),
        "violations": len(new_viol),
    }
    os.makedirs(os.path.join(VERIF, "evidence"), exist_ok=True)
    with open(os.path.join(VERIF, "evidence", f"{prop}.json"), "w") as f:
        json.dump(ev, f, indent=1, default=repr)
    for ln in lines:
        print(ln)
    print(f"[{prop}] tier={tier} seed={seed} runs={n_eval} distinct_nontrivial={len(fps)} steps={ev['coverage']['sim_steps']} "
          f"preemptions={ev['coverage']['preemptions']} new_violations={len(new_viol)} known={sum(known_hit.values())} "
          f"harness_errors={len(harness)} wall={wall:.1f}s")
    if new_viol:
        return 1
    if harness:
        for h in harness[:10]:
            print("HARNESS-ERROR:", h, file=sys.stderr)
        return 2
    if len(recs) == 0 or len(fps) < 2:
        print("HARNESS-ERROR: nothing non-trivial explored", file=sys.stderr)
        return 2
    return 0


def summarise_ops(case: dict[str, Any]) -> Any:
    ops = case.get("ops")
    if not isinstance(ops, list):
        return case.get("summary")
    out = []
    for o in ops[:40]:
        if isinstance(o, dict):
            out.append(" ".join(str(x) for x in (o.get("s"), o.get("k"), (o.get("sql") or o.get("database") or o.get("n") or ""))).strip()[:160])
        else:
            out.append(str(o)[:160])
    return out


def replay_witness(pool: cf.ProcessPoolExecutor, k: dict[str, Any]) -> bool | None:
    path = os.path.join(VERIF, k["witness"])
    if not os.path.exists(path):
        return None
    with open(path) as f:
        rep = json.load(f)
    try:
        res = pool.submit(_replay_in_worker, (rep["case"],)).result(timeout=120)
    except Exception:  # noqa: BLE001
        return None
    return any(v["property"] == k["property"] and match_known([k], v["property"], v["signature"]) for v in res["violations"])


def replay_file(path: str, profile_name: str, prop: str | None) -> int:
    with open(path) as f:
        rep = json.load(f)
    prop = prop or rep["property"]
    _worker_init(profile_name)
    res = run_one(_PROFILE, rep["case"])
    want = rep.get("violation", {}).get("signature")
    got = [v for v in res["violations"] if v["property"] == prop]
    for v in got:
        print(f"VIOLATION property={prop} replay={path}")
        print("  signature:", v["signature"])
        print("  detail:", json.dumps(v.get("detail"), default=repr)[:2000])
    if res.get("harness_error"):
        print("HARNESS-ERROR:", res["harness_error"], file=sys.stderr)
        return 2
    if got:
        if want and not any(v["signature"] == want for v in got):
            print(f"  note: recorded signature was {want}")
        return 1
    print(f"replay of {path}: no violation of {prop} (digest {res.get('digest')})")
    return 0
