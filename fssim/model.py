"""Executable reference model of "Snowflake as fakesnow promises it" for the generator's SQL subset
(DESIGN.md section 3.3).  No DuckDB, no sqlglot.  Statements are structured values (`st` dicts).

A prediction is a dict:
  {"ok": True,  "rows": [...]|None, "ordered": bool, "rowcount": int|None, "cols": [...]|None}
  {"ok": False, "errs": [[errno, sqlstate], ...]}            # acceptable (errno, sqlstate) pairs
`rows is None` means the property is silent about the result rows of this statement.
"""

from __future__ import annotations

import copy
from typing import Any

E_NO_DB = [[90105, "22000"]]
E_NO_SCHEMA = [[90106, "22000"]]
E_MISSING = [[2003, "42S02"], [2043, "02000"]]  # object does not exist / already exists (either pair)
E_TABLE_MISSING = [[2003, "42S02"]]
E_ANY: list[list[Any]] = [[None, None]]  # a ProgrammingError whose code the property does not fix


class Err(Exception):
    def __init__(self, errs: list[list[Any]], why: str = "") -> None:
        super().__init__(why)
        self.errs = errs
        self.why = why


def up(x: str | None) -> str | None:
    return None if x is None else x.upper()


class Model:
    def __init__(self, create_db: bool = True, create_schema: bool = True) -> None:
        self.create_db = create_db
        self.create_schema = create_schema
        # dbs[db][schema] = {"tables": {name: table}, "views": {name: view}}
        self.dbs: dict[str, dict[str, dict[str, dict[str, Any]]]] = {}
        self.sessions: dict[str, dict[str, Any]] = {}
        self.detached: dict[str, Any] = {}  # db_path: databases on disk that the current instance has not attached

    def restart(self) -> None:
        """A later instance on the same db_path: sessions are gone, databases are files until attached again."""
        for s in self.sessions.values():
            if s.get("txn") is not None:
                s["txn"] = None
        self.sessions = {}
        self.detached.update(self.dbs)
        self.dbs = {}

    def copy(self) -> "Model":
        return copy.deepcopy(self)

    # ------------------------------------------------------------------ catalog helpers
    def has_db(self, d: str | None) -> bool:
        return d is not None and d in self.dbs

    def has_schema(self, d: str | None, s: str | None) -> bool:
        return self.has_db(d) and s is not None and (s in self.dbs[d] or s == "INFORMATION_SCHEMA")  # type: ignore[index]

    def session_ctx(self, sid: str) -> tuple[str | None, str | None]:
        """The session's current database/schema (None = it has none)."""
        s = self.sessions[sid]
        return s["db"], s["schema"]

    def _forget(self, d: str, schema: str | None = None) -> None:
        """Dropping an object changes the context of every session that had it as current."""
        for s in self.sessions.values():
            if s["db"] == d and (schema is None or s["schema"] == schema):
                s["schema"] = None
                s["req_schema"] = None
                if schema is None:
                    s["db"] = None
                    s["req_db"] = None

    def resolve(self, sid: str, ref: list[str | None], schema_level: bool = False) -> tuple[str, str | None, str]:
        """ref = [db|None, schema|None, name] (or [db|None, name] at schema level)."""
        cd, cs = self.session_ctx(sid)
        if schema_level:
            d, n = up(ref[0]), up(ref[1])
            if d is None:
                if cd is None:
                    raise Err(E_NO_DB, "no current database")
                d = cd
            return d, None, n  # type: ignore[return-value]
        d, s, n = up(ref[0]), up(ref[1]), ref[2]
        n = n if n.startswith('"') else n.upper()
        n = n.strip('"')
        if d is None:
            if cd is None:
                raise Err(E_NO_DB, "no current database")
            d = cd
        if s is None:
            if cs is None:
                raise Err(E_NO_SCHEMA, "no current schema")
            s = cs
        return d, s, n

    def lookup(self, d: str, s: str, n: str, kinds: tuple[str, ...] = ("tables", "views")) -> tuple[str, dict[str, Any]]:
        if d not in self.dbs:
            raise Err(E_MISSING, f"database {d} does not exist")
        if s not in self.dbs[d]:
            raise Err(E_MISSING, f"schema {d}.{s} does not exist")
        for k in kinds:
            if n in self.dbs[d][s][k]:
                return k, self.dbs[d][s][k][n]
        raise Err(E_TABLE_MISSING, f"object {d}.{s}.{n} does not exist")

    # ------------------------------------------------------------------ sessions
    def connect(self, sid: str, database: str | None, schema: str | None) -> dict[str, Any]:
        d, s = up(database), up(schema)
        if d and self.create_db and d not in self.dbs:
            self.dbs[d] = self.detached.pop(d, {})
        if d and s and self.create_schema and d in self.dbs and s not in self.dbs[d] and s != "INFORMATION_SCHEMA":
            self.dbs[d][s] = {"tables": {}, "views": {}}
        cur_d = d if d in self.dbs else None
        cur_s = s if cur_d is not None and self.has_schema(cur_d, s) else None
        # req_*: names conn.database/conn.schema may keep reporting although the object did not exist at connect
        self.sessions[sid] = {"db": cur_d, "schema": cur_s, "req_db": d if cur_d is None else None,
                              "req_schema": s if cur_s is None else None, "vars": {}, "closed": False}
        return {"ok": True, "database": d, "schema": s}

    # ------------------------------------------------------------------ statements
    def apply(self, sid: str, st: dict[str, Any]) -> dict[str, Any]:
        """Predict the outcome of statement st on session sid and move to the next state.
        On a predicted error nothing changes."""
        sess = self.sessions[sid]
        if sess.get("closed"):
            return {"ok": False, "errs": [[250002, "08003"]], "cls": "DatabaseError", "why": "connection closed"}
        t = st["t"]
        if t in ("begin", "commit", "rollback"):
            return self._txn(sid, t)
        in_txn = sess.get("txn") is not None
        saved = self.dbs
        if in_txn:
            self.dbs = sess["txn"]
        backup = copy.deepcopy(self.dbs) if True else None
        try:
            return getattr(self, "_" + t)(sid, st)
        except Err as e:
            self.dbs = backup  # a failed statement changes nothing (also inside a transaction)
            return {"ok": False, "errs": e.errs, "why": e.why, **({"anycode": True} if e.errs == E_ANY else {})}
        finally:
            if in_txn:
                sess["txn"] = self.dbs
                self.dbs = saved

    def _txn(self, sid: str, t: str) -> dict[str, Any]:
        """One writer transaction at a time (generator-enforced): commit publishes its private copy."""
        sess = self.sessions[sid]
        if t == "begin":
            if sess.get("txn") is not None:
                return {"ok": False, "errs": E_ANY, "anycode": True, "anyclass": True, "why": "nested BEGIN (property silent)"}
            sess["txn"] = copy.deepcopy(self.dbs)
            return {"ok": True, "rows": None, "rowcount": None}
        if sess.get("txn") is None:
            return self.status("Statement executed successfully.")
        if t == "commit":
            self.dbs = sess["txn"]
        sess["txn"] = None
        return {"ok": True, "rows": None, "rowcount": None}

    def close(self, sid: str) -> None:
        self.sessions[sid]["closed"] = True
        self.sessions[sid]["txn"] = None

    # ---- session variables ---------------------------------------------------------
    def _set_var(self, sid: str, st: dict[str, Any]) -> dict[str, Any]:
        self.sessions[sid]["vars"][st["name"].upper()] = st["value"]
        return self.status("Statement executed successfully.")

    def _unset_var(self, sid: str, st: dict[str, Any]) -> dict[str, Any]:
        self.sessions[sid]["vars"].pop(st["name"].upper(), None)
        return self.status("Statement executed successfully.")

    def _select_var(self, sid: str, st: dict[str, Any]) -> dict[str, Any]:
        v = self.sessions[sid]["vars"]
        out = []
        for n in st["names"]:
            if n.upper() not in v:
                raise Err(E_ANY, f"Session variable '${n.upper()}' does not exist")
            out.append(v[n.upper()])
        return {"ok": True, "rows": [out], "ordered": True, "rowcount": 1}

    def var(self, sid: str, name: str) -> Any:
        v = self.sessions[sid]["vars"]
        if name.upper() not in v:
            raise Err(E_ANY, f"Session variable '${name.upper()}' does not exist")
        return v[name.upper()]

    def _select_varpred(self, sid: str, st: dict[str, Any]) -> dict[str, Any]:
        val = self.var(sid, st["var"])
        return self._select(sid, {"t": "select", "ref": st["ref"], "cols": st.get("cols"), "where": ["cmp", st["col"], "=", ["lit", val]]})

    def _insert_vars(self, sid: str, st: dict[str, Any]) -> dict[str, Any]:
        row = [self.var(sid, n) for n in st["vars"]]
        return self._insert(sid, {"t": "insert", "ref": st["ref"], "rows": [row]})

    def _const(self, sid: str, st: dict[str, Any]) -> dict[str, Any]:
        return {"ok": True, "rows": st["rows"], "ordered": True, "rowcount": len(st["rows"])}

    def _raw_fail(self, sid: str, st: dict[str, Any]) -> dict[str, Any]:
        """A statement the generator built to fail for the stated reason; the model only knows the class."""
        if st.get("needs_ctx"):
            self.resolve(sid, st["needs_ctx"])
        raise Err(st["errs"], st.get("why", "generated failure"))

    @staticmethod
    def status(text: str) -> dict[str, Any]:
        return {"ok": True, "rows": [[text]], "ordered": True, "rowcount": 1, "cols": ["status"]}

    def _create_db(self, sid: str, st: dict[str, Any]) -> dict[str, Any]:
        n = up(st["name"])
        if n in self.dbs:
            if not st.get("ine"):
                raise Err(E_MISSING, "database exists")
        else:
            self.dbs[n] = self.detached.pop(n, {})  # type: ignore[index, arg-type]
        return self.status(f"Database {n} successfully created.")

    def _drop_db(self, sid: str, st: dict[str, Any]) -> dict[str, Any]:
        n = up(st["name"])
        if n not in self.dbs:
            raise Err(E_MISSING, "database missing")
        del self.dbs[n]  # type: ignore[arg-type]
        self._forget(n)  # type: ignore[arg-type]
        return self.status(f"{n} successfully dropped.")

    def _create_schema(self, sid: str, st: dict[str, Any]) -> dict[str, Any]:
        d, _, n = self.resolve(sid, [st.get("db"), st["name"]], schema_level=True)
        if d not in self.dbs:
            raise Err(E_MISSING, "database missing")
        if n in self.dbs[d]:
            if not st.get("ine"):
                raise Err(E_MISSING, "schema exists")
        else:
            self.dbs[d][n] = {"tables": {}, "views": {}}
        return self.status(f"Schema {n} successfully created.")

    def _drop_schema(self, sid: str, st: dict[str, Any]) -> dict[str, Any]:
        d, _, n = self.resolve(sid, [st.get("db"), st["name"]], schema_level=True)
        if d not in self.dbs or n not in self.dbs[d]:
            if st.get("ie"):
                return self.status(f"{n} successfully dropped.")
            raise Err(E_MISSING, "schema missing")
        del self.dbs[d][n]
        self._forget(d, n)
        return self.status(f"{n} successfully dropped.")

    def _create_table(self, sid: str, st: dict[str, Any]) -> dict[str, Any]:
        d, s, n = self.resolve(sid, st["ref"])
        if d not in self.dbs or s not in self.dbs[d]:
            raise Err(E_MISSING, "schema missing")
        sch = self.dbs[d][s]
        if n in sch["tables"] or n in sch["views"]:
            if st.get("ine"):
                return self.status(f"Table {n} successfully created.")
            if not (st.get("or_replace") and n in sch["tables"]):
                raise Err(E_MISSING, "table exists")
        sch["tables"][n] = {
            "cols": [{"name": c[0].upper(), "type": c[1], "notnull": bool(len(c) > 2 and c[2])} for c in st["cols"]],
            "rows": [],
            "comment": st.get("comment"),
        }
        return self.status(f"Table {n} successfully created.")

    def _drop_table(self, sid: str, st: dict[str, Any]) -> dict[str, Any]:
        d, s, n = self.resolve(sid, st["ref"])
        try:
            k, _ = self.lookup(d, s, n, ("tables",))  # type: ignore[arg-type]
        except Err:
            if st.get("ie"):
                return self.status(f"{n} successfully dropped.")
            raise
        del self.dbs[d][s][k][n]  # type: ignore[index]
        return self.status(f"{n} successfully dropped.")

    def _create_view(self, sid: str, st: dict[str, Any]) -> dict[str, Any]:
        d, s, n = self.resolve(sid, st["ref"])
        sd, ss, sn = self.resolve(sid, st["src"])
        if d not in self.dbs or s not in self.dbs[d]:
            raise Err(E_MISSING, "schema missing")
        self.lookup(sd, ss, sn)  # type: ignore[arg-type]
        sch = self.dbs[d][s]
        if n in sch["tables"] or n in sch["views"]:
            raise Err(E_MISSING, "exists")
        sch["views"][n] = {"src": [sd, ss, sn]}
        return self.status(f"View {n} successfully created.")

    def _drop_view(self, sid: str, st: dict[str, Any]) -> dict[str, Any]:
        d, s, n = self.resolve(sid, st["ref"])
        self.lookup(d, s, n, ("views",))  # type: ignore[arg-type]
        del self.dbs[d][s]["views"][n]  # type: ignore[index]
        return self.status(f"{n} successfully dropped.")

    def _use_db(self, sid: str, st: dict[str, Any]) -> dict[str, Any]:
        n = up(st["name"])
        if n not in self.dbs:
            raise Err(E_MISSING, "database missing")
        self.sessions[sid].update(db=n, schema=None, req_db=None, req_schema=None)
        return {"ok": True, "rows": None, "rowcount": None}

    def _use_schema(self, sid: str, st: dict[str, Any]) -> dict[str, Any]:
        d, _, n = self.resolve(sid, [st.get("db"), st["name"]], schema_level=True)
        if not self.has_schema(d, n):
            raise Err(E_MISSING, "schema missing")
        self.sessions[sid].update(db=d, schema=n, req_db=None, req_schema=None)
        return {"ok": True, "rows": None, "rowcount": None}

    def _ctxq(self, sid: str, st: dict[str, Any]) -> dict[str, Any]:
        d, s = self.session_ctx(sid)
        return {"ok": True, "rows": [[d, s]], "ordered": True, "rowcount": 1, "ctx": True}

    # ---- data -------------------------------------------------------------------------
    def src_table(self, sid: str, ref: list[str | None]) -> dict[str, Any]:
        """The second table of a two-table statement (errors are tagged so signatures can tell)."""
        try:
            return self.table(sid, ref)
        except Err as e:
            raise Err(e.errs, "second-table: " + e.why) from None

    def table(self, sid: str, ref: list[str | None], writable: bool = False) -> dict[str, Any]:
        d, s, n = self.resolve(sid, ref)
        k, obj = self.lookup(d, s, n, ("tables",) if writable else ("tables", "views"))  # type: ignore[arg-type]
        if k == "views":
            sd, ss, sn = obj["src"]
            _, obj = self.lookup(sd, ss, sn)
            if "src" in obj:
                raise Err(E_MISSING, "view over view not modelled")
        return obj

    def _insert(self, sid: str, st: dict[str, Any]) -> dict[str, Any]:
        t = self.table(sid, st["ref"], writable=True)
        names = [c["name"] for c in t["cols"]]
        cols = [c.upper() for c in st["cols"]] if st.get("cols") else names
        new = []
        for r in st["rows"]:
            if len(r) != len(cols):
                raise Err(E_MISSING, "wrong number of values")
            row = [None] * len(names)
            for c, v in zip(cols, r):
                if c not in names:
                    raise Err(E_MISSING, "unknown column")
                row[names.index(c)] = v
            new.append(row)
        t["rows"].extend(new)
        return {"ok": True, "rows": [[len(new)]], "ordered": True, "rowcount": len(new), "cols": ["number of rows inserted"]}

    def _insert_select(self, sid: str, st: dict[str, Any]) -> dict[str, Any]:
        t = self.table(sid, st["ref"], writable=True)
        src = self.src_table(sid, st["src"])
        if len(src["cols"]) != len(t["cols"]):
            raise Err(E_MISSING, "column count")
        names = [c["name"] for c in src["cols"]]
        new = [list(r) for r in src["rows"] if ev(st.get("where"), names, r) is True]
        t["rows"].extend(new)
        return {"ok": True, "rows": [[len(new)]], "ordered": True, "rowcount": len(new), "cols": ["number of rows inserted"]}

    def _select(self, sid: str, st: dict[str, Any]) -> dict[str, Any]:
        t = self.table(sid, st["ref"])
        names = [c["name"] for c in t["cols"]]
        cols = [c.upper() for c in st["cols"]] if st.get("cols") else names
        for c in cols:
            if c not in names:
                raise Err(E_MISSING, "unknown column")
        rows = [[r[names.index(c)] for c in cols] for r in t["rows"] if ev(st.get("where"), names, r) is True]
        return {"ok": True, "rows": rows, "ordered": False, "rowcount": len(rows), "cols": cols}

    def _update(self, sid: str, st: dict[str, Any]) -> dict[str, Any]:
        t = self.table(sid, st["ref"], writable=True)
        names = [c["name"] for c in t["cols"]]
        n = 0
        for r in t["rows"]:
            if ev(st.get("where"), names, r) is True:
                n += 1
                old = list(r)
                for c, e in st["set"]:
                    r[names.index(c.upper())] = ev_expr(e, names, old)
        return {"ok": True, "rows": [[n, 0]], "ordered": True, "rowcount": n,
                "cols": ["number of rows updated", "number of multi-joined rows updated"]}

    def _delete(self, sid: str, st: dict[str, Any]) -> dict[str, Any]:
        t = self.table(sid, st["ref"], writable=True)
        names = [c["name"] for c in t["cols"]]
        keep = [r for r in t["rows"] if ev(st.get("where"), names, r) is not True]
        n = len(t["rows"]) - len(keep)
        t["rows"][:] = keep
        return {"ok": True, "rows": [[n]], "ordered": True, "rowcount": n, "cols": ["number of rows deleted"]}

    def _truncate(self, sid: str, st: dict[str, Any]) -> dict[str, Any]:
        t = self.table(sid, st["ref"], writable=True)
        t["rows"][:] = []
        return {"ok": True, "rows": None, "rowcount": None}

    def _ctas(self, sid: str, st: dict[str, Any]) -> dict[str, Any]:
        d, s, n = self.resolve(sid, st["ref"])
        src = self.src_table(sid, st["src"])
        if d not in self.dbs or s not in self.dbs[d]:
            raise Err(E_MISSING, "schema missing")
        sch = self.dbs[d][s]
        if n in sch["tables"] or n in sch["views"]:
            raise Err(E_MISSING, "exists")
        names = [c["name"] for c in src["cols"]]
        sch["tables"][n] = {
            "cols": copy.deepcopy(src["cols"]),
            "rows": [list(r) for r in src["rows"] if ev(st.get("where"), names, r) is True],
            "comment": None,
            "derived": True,
        }
        return self.status(f"Table {n} successfully created.")

    _clone = _ctas

    # ------------------------------------------------------------------ snapshot comparable with World.observe
    def snapshot(self) -> dict[str, Any]:
        from .world import norm_rows, sort_key

        dbs = sorted(self.dbs)
        schemas = sorted([d, s] for d in self.dbs for s in self.dbs[d])
        tables, views, rows = {}, {}, {}
        for d in self.dbs:
            for s in self.dbs[d]:
                for n, t in self.dbs[d][s]["tables"].items():
                    tables[f"{d}.{s}.{n}"] = [c["name"] for c in t["cols"]]
                    rows[f"{d}.{s}.{n}"] = sorted(norm_rows(t["rows"]), key=sort_key)
                for n, v in self.dbs[d][s]["views"].items():
                    sd, ss, sn = v["src"]
                    try:
                        _, src = self.lookup(sd, ss, sn)
                        views[f"{d}.{s}.{n}"] = [c["name"] for c in src["cols"]] if "cols" in src else None
                    except Err:
                        views[f"{d}.{s}.{n}"] = None
        return {"dbs": dbs, "schemas": schemas, "tables": tables, "views": views, "rows": rows}


# --------------------------------------------------------------------------- 3-valued predicates


def ev_expr(e: Any, names: list[str], row: list[Any]) -> Any:
    """Scalar: literal | ["col", name] | ["add", name, k] | ["concat", name, text]."""
    if isinstance(e, list):
        if e[0] == "col":
            return row[names.index(e[1].upper())]
        if e[0] == "add":
            v = row[names.index(e[1].upper())]
            return None if v is None else v + e[2]
        if e[0] == "concat":
            v = row[names.index(e[1].upper())]
            return None if v is None else v + e[2]
        if e[0] == "lit":
            return e[1]
    return e


def ev(p: Any, names: list[str], row: list[Any]) -> bool | None:
    """SQL three-valued logic: True / False / None (unknown)."""
    if p is None:
        return True
    k = p[0]
    if k == "true":
        return True
    if k == "false":
        return False
    if k == "cmp":
        a = row[names.index(p[1].upper())]
        b = ev_expr(p[3], names, row)
        if a is None or b is None:
            return None
        return {"=": a == b, "<>": a != b, "<": a < b, "<=": a <= b, ">": a > b, ">=": a >= b}[p[2]]
    if k == "isnull":
        a = row[names.index(p[1].upper())]
        return (a is None) != bool(p[2])
    if k == "in":
        a = row[names.index(p[1].upper())]
        if a is None:
            return None
        if a in [x for x in p[2] if x is not None]:
            return True
        return None if any(x is None for x in p[2]) else False
    if k == "not":
        v = ev(p[1], names, row)
        return None if v is None else not v
    if k == "and":
        a, b = ev(p[1], names, row), ev(p[2], names, row)
        if a is False or b is False:
            return False
        if a is None or b is None:
            return None
        return True
    if k == "or":
        a, b = ev(p[1], names, row), ev(p[2], names, row)
        if a is True or b is True:
            return True
        if a is None or b is None:
            return None
        return False
    raise ValueError(f"unknown predicate {p}")
