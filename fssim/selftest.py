"""./check selftest [--profiles a,b] [--n N]  -- determinism self-test (DESIGN.md section 9).

For every profile, N run seeds are executed three times: in a pool of 4 workers, in a pool of 16 workers in
reversed order (so the same seed lands at a different position of a different worker) and in a fresh interpreter
under another PYTHONHASHSEED.  The event-log digests and the violation signatures must be identical.
Exit 0 = deterministic, 2 = a divergence (printed).  Replay fidelity: every witness in /verif/findings is replayed.
"""

from __future__ import annotations

import concurrent.futures as cf
import json
import multiprocessing as mp
import os
import random
import subprocess
import sys
import time
from typing import Any

from . import profiles, runner


def _digests(args: tuple[str, str, int, list[int]]) -> dict[int, Any]:
    pname, prop, seed, idxs = args
    prof = runner._PROFILE
    out = {}
    for i in idxs:
        rs = runner.splitmix(seed, i)
        case = prof.gen(random.Random(rs), prop, "quick")
        case["run_seed"] = rs
        case["index"] = i
        res = runner.run_one(prof, case)
        out[i] = [res.get("digest"), sorted(v["signature"] for v in res.get("violations", [])), (res.get("harness_error") or "")[:80]]
    return out


def _pool_run(pname: str, prop: str, seed: int, idxs: list[int], jobs: int) -> dict[int, Any]:
    ctx = mp.get_context("fork")
    out: dict[int, Any] = {}
    with cf.ProcessPoolExecutor(max_workers=jobs, mp_context=ctx, initializer=runner._worker_init, initargs=(pname,)) as pool:
        chunks = [idxs[k::jobs] for k in range(jobs)]
        for r in pool.map(_digests, [(pname, prop, seed, c) for c in chunks if c], timeout=1800):
            out.update(r)
    return out


def child_main() -> int:
    """Entry point of the fresh interpreter: prints {index: digest...} as JSON."""
    pname, prop, seed, n = sys.argv[1], sys.argv[2], int(sys.argv[3]), int(sys.argv[4])
    runner._worker_init(pname)
    print("DIGESTS " + json.dumps(_digests((pname, prop, seed, list(range(n))))))
    return 0


def main(a: Any, seed: int) -> int:
    wanted = a.profiles.split(",") if a.profiles else None
    by_profile: dict[str, str] = {}
    for prop, pname in sorted(profiles.PROPERTY_PROFILE.items()):
        by_profile.setdefault(pname, prop)
    bad = 0
    report = {}
    for pname, prop in by_profile.items():
        if wanted and pname not in wanted:
            continue
        n = a.n if pname not in ("crash",) else max(4, a.n // 20)
        t0 = time.time()
        idxs = list(range(n))
        d1 = _pool_run(pname, prop, seed, idxs, 4)
        d2 = _pool_run(pname, prop, seed, list(reversed(idxs)), 16)
        env = dict(os.environ, PYTHONHASHSEED="12345")
        m = min(n, 40 if pname != "crash" else 2)
        p = subprocess.run([sys.executable, "-W", "ignore", "-c", "import sys; from fssim.selftest import child_main; sys.exit(child_main())", pname, prop, str(seed), str(m)],
                           env=env, capture_output=True, text=True, timeout=1800, cwd=runner.VERIF)
        line = next((ln for ln in p.stdout.splitlines() if ln.startswith("DIGESTS ")), None)
        d3 = {int(k): v for k, v in json.loads(line[8:]).items()} if line else {}
        diff12 = [i for i in idxs if d1.get(i) != d2.get(i)]
        diff13 = [i for i in range(m) if d1.get(i) != d3.get(i)]
        herr = [i for i in idxs if (d1.get(i) or [None, None, "?"])[2]]
        ok = not diff12 and not diff13 and bool(d3) and not herr
        report[pname] = {"seeds": n, "pool4_vs_pool16_mismatches": diff12[:10], "fresh_interpreter_other_hashseed_mismatches": diff13[:10], "fresh_interpreter_seeds": m,
                         "harness_errors": herr[:5], "wall_s": round(time.time() - t0, 1)}
        print(f"[selftest] {pname:8s} seeds={n} pool4/pool16 mismatches={len(diff12)} hashseed mismatches={len(diff13)}/{m} harness_errors={len(herr)} {'OK' if ok else 'DIVERGES'} ({time.time() - t0:.0f}s)")
        if not ok:
            bad += 1
            for i in (diff12 + diff13)[:3]:
                print("   seed index", i, "->", d1.get(i), "|", d2.get(i), "|", d3.get(i))
            if not line:
                print("   fresh interpreter produced no digests:", p.stderr[-400:])
    # replay fidelity of the committed witnesses
    wit = 0
    wit_bad = []
    for k in runner.load_known():
        if k.get("status", "known") == "known" and k.get("witness"):
            pname = profiles.PROPERTY_PROFILE[k["property"]]
            path = os.path.join(runner.VERIF, k["witness"])
            if not os.path.exists(path):
                wit_bad.append(k["witness"] + " (missing)")
                continue
            env = dict(os.environ)
            p = subprocess.run([os.path.join(runner.VERIF, "check"), k["property"], "--replay", path], env=env, capture_output=True, text=True, timeout=600)
            wit += 1
            if p.returncode != 1:
                wit_bad.append(k["witness"])
    print(f"[selftest] witnesses replayed={wit} not-reproducing={wit_bad}")
    os.makedirs(os.path.join(runner.VERIF, "evidence"), exist_ok=True)
    with open(os.path.join(runner.VERIF, "evidence", "selftest.json"), "w") as f:
        json.dump({"seed": seed, "profiles": report, "witnesses_replayed": wit, "witnesses_not_reproducing": wit_bad}, f, indent=1)
    return 2 if bad or wit_bad else 0
