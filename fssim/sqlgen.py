"""Rendering structured statements to Snowflake SQL text (with per-statement spelling variation) and
the model-guided operation generator shared by the serial profiles (DESIGN.md section 3.2)."""

from __future__ import annotations

from typing import Any

from .model import Model

DBS = ["DB1", "DB2"]
SCHEMAS = ["S1", "S2"]
TABLES = ["T1", "T2"]
VIEWS = ["V1"]


# --------------------------------------------------------------------------- rendering


class Speller:
    def __init__(self, rng: Any, vary: bool = True) -> None:
        self.rng = rng
        self.vary = vary

    def kw(self, text: str) -> str:
        if not self.vary:
            return text
        r = self.rng.random()
        if r < 0.5:
            return text
        if r < 0.85:
            return text.lower()
        return "".join(c.lower() if self.rng.random() < 0.5 else c.upper() for c in text)

    def ident(self, name: str) -> str:
        if name.startswith('"') or not self.vary:
            return name
        r = self.rng.random()
        if r < 0.45:
            return name
        if r < 0.85:
            return name.lower()
        return name.capitalize()

    def ref(self, ref: list[str | None]) -> str:
        return ".".join(self.ident(p) for p in ref if p is not None)


def lit(v: Any) -> str:
    if v is None:
        return "NULL"
    if isinstance(v, bool):
        return "TRUE" if v else "FALSE"
    if isinstance(v, (int, float)):
        return str(v)
    return "'" + str(v).replace("\\", "\\\\").replace("'", "''") + "'"


def expr_sql(e: Any, sp: Speller) -> str:
    if isinstance(e, list):
        if e[0] == "col":
            return sp.ident(e[1])
        if e[0] == "add":
            return f"{sp.ident(e[1])} + {e[2]}"
        if e[0] == "concat":
            return f"{sp.ident(e[1])} || {lit(e[2])}"
        if e[0] == "lit":
            return lit(e[1])
    return lit(e)


def pred_sql(p: Any, sp: Speller) -> str:
    k = p[0]
    if k == "true":
        return "1 = 1"
    if k == "false":
        return "1 = 0"
    if k == "cmp":
        return f"{sp.ident(p[1])} {p[2]} {expr_sql(p[3], sp)}"
    if k == "isnull":
        return f"{sp.ident(p[1])} {sp.kw('IS NOT NULL' if p[2] else 'IS NULL')}"
    if k == "in":
        return f"{sp.ident(p[1])} {sp.kw('IN')} ({', '.join(lit(x) for x in p[2])})"
    if k == "not":
        return f"{sp.kw('NOT')} ({pred_sql(p[1], sp)})"
    if k in ("and", "or"):
        return f"({pred_sql(p[1], sp)}) {sp.kw(k.upper())} ({pred_sql(p[2], sp)})"
    raise ValueError(p)


def coldef(c: list[Any], sp: Speller) -> str:
    s = f"{sp.ident(c[0])} {sp.kw(c[1])}"
    if len(c) > 2 and c[2]:
        s += " " + sp.kw("NOT NULL")
    return s


def render(st: dict[str, Any], sp: Speller) -> str:
    t = st["t"]
    kw, ref = sp.kw, sp.ref
    where = (lambda: f" {kw('WHERE')} {pred_sql(st['where'], sp)}" if st.get("where") is not None else "")
    if t == "create_db":
        return f"{kw('CREATE DATABASE')} {kw('IF NOT EXISTS') + ' ' if st.get('ine') else ''}{sp.ident(st['name'])}"
    if t == "drop_db":
        return f"{kw('DROP DATABASE')} {sp.ident(st['name'])}"
    if t == "create_schema":
        return f"{kw('CREATE SCHEMA')} {kw('IF NOT EXISTS') + ' ' if st.get('ine') else ''}{ref([st.get('db'), st['name']])}"
    if t == "drop_schema":
        return f"{kw('DROP SCHEMA')} {kw('IF EXISTS') + ' ' if st.get('ie') else ''}{ref([st.get('db'), st['name']])}"
    if t == "create_table":
        head = kw("CREATE OR REPLACE TABLE") if st.get("or_replace") else kw("CREATE TABLE")
        ine = kw("IF NOT EXISTS") + " " if st.get("ine") else ""
        cols = ", ".join(coldef(c, sp) for c in st["cols"])
        com = f" {kw('COMMENT')} = {lit(st['comment'])}" if st.get("comment") is not None else ""
        return f"{head} {ine}{ref(st['ref'])} ({cols}){com}"
    if t == "drop_table":
        return f"{kw('DROP TABLE')} {kw('IF EXISTS') + ' ' if st.get('ie') else ''}{ref(st['ref'])}"
    if t == "create_view":
        return f"{kw('CREATE VIEW')} {ref(st['ref'])} {kw('AS SELECT')} * {kw('FROM')} {ref(st['src'])}"
    if t == "drop_view":
        return f"{kw('DROP VIEW')} {ref(st['ref'])}"
    if t == "use_db":
        return f"{kw('USE DATABASE')} {sp.ident(st['name'])}"
    if t == "use_schema":
        return f"{kw('USE SCHEMA')} {ref([st.get('db'), st['name']])}"
    if t == "ctxq":
        return f"{kw('SELECT')} {kw('CURRENT_DATABASE')}(), {kw('CURRENT_SCHEMA')}()"
    if t == "insert":
        cols = f" ({', '.join(sp.ident(c) for c in st['cols'])})" if st.get("cols") else ""
        vals = ", ".join("(" + ", ".join(lit(v) for v in r) + ")" for r in st["rows"])
        return f"{kw('INSERT INTO')} {ref(st['ref'])}{cols} {kw('VALUES')} {vals}"
    if t == "insert_select":
        return f"{kw('INSERT INTO')} {ref(st['ref'])} {kw('SELECT')} * {kw('FROM')} {ref(st['src'])}{where()}"
    if t == "select":
        cols = ", ".join(sp.ident(c) for c in st["cols"]) if st.get("cols") else "*"
        return f"{kw('SELECT')} {cols} {kw('FROM')} {ref(st['ref'])}{where()}"
    if t == "update":
        sets = ", ".join(f"{sp.ident(c)} = {expr_sql(e, sp)}" for c, e in st["set"])
        return f"{kw('UPDATE')} {ref(st['ref'])} {kw('SET')} {sets}{where()}"
    if t == "delete":
        return f"{kw('DELETE FROM')} {ref(st['ref'])}{where()}"
    if t == "truncate":
        return f"{kw('TRUNCATE TABLE')} {ref(st['ref'])}"
    if t == "ctas":
        return f"{kw('CREATE TABLE')} {ref(st['ref'])} {kw('AS SELECT')} * {kw('FROM')} {ref(st['src'])}{where()}"
    if t == "clone":
        return f"{kw('CREATE TABLE')} {ref(st['ref'])} {kw('CLONE')} {ref(st['src'])}"
    if t in ("begin", "commit", "rollback"):
        return kw(t.upper())
    if t == "set_var":
        return f"{kw('SET')} {sp.ident(st['name'])} = {lit(st['value'])}"
    if t == "unset_var":
        return f"{kw('UNSET')} {sp.ident(st['name'])}"
    if t == "select_var":
        return f"{kw('SELECT')} " + ", ".join(f"${sp.ident(n)} {kw('AS')} C{i}" for i, n in enumerate(st["names"]))
    if t == "select_varpred":
        cols = ", ".join(sp.ident(c) for c in st["cols"]) if st.get("cols") else "*"
        return f"{kw('SELECT')} {cols} {kw('FROM')} {ref(st['ref'])} {kw('WHERE')} {sp.ident(st['col'])} = ${sp.ident(st['var'])}"
    if t == "insert_vars":
        return f"{kw('INSERT INTO')} {ref(st['ref'])} {kw('VALUES')} ({', '.join('$' + sp.ident(n) for n in st['vars'])})"
    if t == "raw_fail":
        return st["sql"]
    raise ValueError(f"cannot render {t}")


# --------------------------------------------------------------------------- model-guided generator


class Gen:
    """Builds a history op by op, advancing a private copy of the model so that most ops are meaningful."""

    def __init__(self, rng: Any, model: Model, vary_spelling: bool = True) -> None:
        self.rng = rng
        self.m = model
        self.sp = Speller(rng, vary_spelling)
        self.ops: list[dict[str, Any]] = []
        self.uid = 1000

    def fresh(self) -> int:
        self.uid += 1
        return self.uid

    # -- emitting
    def connect(self, sid: str, database: str | None, schema: str | None) -> None:
        self.ops.append({"s": sid, "k": "connect", "database": database, "schema": schema})
        self.m.connect(sid, database, schema)

    def exec(self, sid: str, st: dict[str, Any], **extra: Any) -> dict[str, Any]:
        op = {"s": sid, "k": "exec", "sql": render(st, self.sp), "st": st, **extra}
        self.ops.append(op)
        return self.m.apply(sid, st)

    # -- choosing names
    def all_tables(self) -> list[tuple[str, str, str]]:
        return [(d, s, n) for d in sorted(self.m.dbs) for s in sorted(self.m.dbs[d]) for n in sorted(self.m.dbs[d][s]["tables"])]

    def all_views(self) -> list[tuple[str, str, str]]:
        return [(d, s, n) for d in sorted(self.m.dbs) for s in sorted(self.m.dbs[d]) for n in sorted(self.m.dbs[d][s]["views"])]

    def all_schemas(self) -> list[tuple[str, str]]:
        return [(d, s) for d in sorted(self.m.dbs) for s in sorted(self.m.dbs[d])]

    def qualify(self, sid: str, fq: tuple[str, str, str], p_bad: float = 0.08) -> list[str | None]:
        """A reference to fq at a qualification level the session's context allows (least qualified
        preferred); with probability p_bad a level that needs context the session lacks."""
        d, s, n = fq
        cd, cs = self.m.session_ctx(sid)
        levels: list[list[str | None]] = [[d, s, n]]
        if cd == d:
            levels.append([None, s, n])
            if cs == s:
                levels.append([None, None, n])
        if self.rng.random() < p_bad:
            return self.rng.choice([[None, s, n], [None, None, n]])
        w = [1, 2, 4][: len(levels)]
        return self.rng.choices(levels, w)[0]

    def pick_target_schema(self, sid: str) -> tuple[str, str] | None:
        sch = self.all_schemas()
        cd, cs = self.m.session_ctx(sid)
        if cd and cs and self.rng.random() < 0.6:
            return cd, cs
        return self.rng.choice(sch) if sch else None

    def columns_of(self, fq: tuple[str, str, str]) -> list[dict[str, Any]]:
        d, s, n = fq
        return self.m.dbs[d][s]["tables"][n]["cols"]

    def row_for(self, cols: list[dict[str, Any]], p_null: float = 0.15) -> list[Any]:
        out = []
        for c in cols:
            if not c.get("notnull") and self.rng.random() < p_null:
                out.append(None)
            elif c["type"].upper().startswith("VARCHAR") or c["type"].upper() in ("TEXT", "STRING"):
                out.append(f"v{self.fresh()}")
            else:
                out.append(self.fresh())
        return out

    def predicate(self, fq: tuple[str, str, str], depth: int = 0) -> Any:
        """3VL predicate over the table's columns, biased to values actually present."""
        cols = self.columns_of(fq)
        d, s, n = fq
        rows = self.m.dbs[d][s]["tables"][n]["rows"]
        r = self.rng.random()
        if depth < 2 and r < 0.3:
            k = self.rng.choice(["and", "or", "not", "not"])
            if k == "not":
                inner = self.predicate(fq, depth + 1)
                if inner[0] not in ("and", "or") and self.rng.random() < 0.5:
                    inner = [self.rng.choice(["and", "or"]), inner, self.predicate(fq, depth + 1)]  # NOT over a compound: where two-valued shortcuts go wrong
                return ["not", inner]
            a = self.predicate(fq, depth + 1)
            b = self.predicate(fq, depth + 1)
            if a[0] == "cmp" and self.rng.random() < 0.35:
                # a second comparison on the same column: ranges that contradict or complement each other (what a simplifier would fold)
                b = ["cmp", a[1], self.rng.choice(["=", "<>", "<", "<=", ">", ">="]), a[3] if self.rng.random() < 0.5 else b[3] if b[0] == "cmp" and b[1] == a[1] else a[3]]
            return [k, a, b]
        if r < 0.32:
            return self.rng.choice([["true"], ["false"]])
        c = self.rng.choice(cols)
        i = [x["name"] for x in cols].index(c["name"])
        present = [x[i] for x in rows if x[i] is not None]
        is_text = c["type"].upper().startswith("VARCHAR")
        if r < 0.45:
            return ["isnull", c["name"], self.rng.random() < 0.5]
        if r < 0.55 and present:
            vals = self.rng.sample(present, min(len(present), self.rng.randint(1, 3)))
            if self.rng.random() < 0.3:
                vals = vals + [None]
            return ["in", c["name"], vals]
        if present and self.rng.random() < 0.8:
            v = self.rng.choice(present)
        else:
            v = "zz" if is_text else self.rng.choice([0, 5000, None]) if self.rng.random() < 0.8 else None
        return ["cmp", c["name"], self.rng.choice(["=", "<>", "<", "<=", ">", ">="]), v]
