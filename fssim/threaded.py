"""Running a case's operations on baton-scheduled session threads, or serially on one thread."""

from __future__ import annotations

import random
from typing import Any

from . import core
from .world import World


def run_threaded(sim: core.Sim, world: World, case: dict[str, Any], ops: list[dict[str, Any]]) -> dict[str, Any]:
    """Each session's ops (in list order) run on that session's thread; the strategy named in the
    case (or its explicit schedule) decides every hand-over. Returns the per-op history."""
    strat = case.get("strategy", "random")
    explicit = case.get("schedule") if strat == "explicit" else None
    rng = random.Random(case.get("sched_seed", 0))
    choose = core.strategy("random" if strat == "explicit" else strat, rng, explicit=explicit if explicit is not None else None,
                           depth=case.get("pct_depth", 2), horizon=case.get("pct_horizon", 80))
    baton = core.Baton(sim, choose)
    sim.sched = baton
    history: list[dict[str, Any]] = []
    by_session: dict[str, list[tuple[int, dict[str, Any]]]] = {}
    for i, op in enumerate(ops):
        by_session.setdefault(op["s"], []).append((i, op))

    def make(sid: str, mine: list[tuple[int, dict[str, Any]]]):  # noqa: ANN202
        def body() -> None:
            for i, op in mine:
                baton.yield_point(("op", op["k"]))
                inv = sim.tick()
                sim.note(inv, sid, "inv", op["k"], op.get("tag", ""))
                out = world.apply(op)
                ret = sim.tick()
                sim.note(ret, sid, "ret", op["k"], out.get("ok"), out.get("exc"))
                history.append({"i": i, "s": sid, "op": op, "inv": inv, "ret": ret, "out": out})

        return body

    for sid in sorted(by_session):
        baton.spawn(sid, make(sid, by_session[sid]))
    try:
        baton.run()
    finally:
        sim.sched = None
    for name, err in sorted(baton.errors.items()):
        if isinstance(err, core.HarnessError):
            raise err
        raise core.HarnessError(f"session thread {name} died: {type(err).__name__}: {err}")
    history.sort(key=lambda h: h["inv"])
    return {
        "history": history,
        "schedule": baton.choices,
        "preemptions": baton.preemptions,
        "decisions": baton.decisions,
        "deadlock": baton.deadlock,
        "blocked": sorted(baton.blocked),
    }


def run_serial(sim: core.Sim, world: World, ops: list[dict[str, Any]]) -> list[dict[str, Any]]:
    """Statement-level schedule: the list order *is* the schedule; one thread impersonates each session."""
    history = []
    for i, op in enumerate(ops):
        sim.set_session(op["s"])
        inv = sim.tick()
        sim.note(inv, op["s"], "inv", op["k"], op.get("tag", ""))
        out = world.apply(op)
        ret = sim.tick()
        sim.note(ret, op["s"], "ret", op["k"], out.get("ok"), out.get("exc"))
        history.append({"i": i, "s": op["s"], "op": op, "inv": inv, "ret": ret, "out": out})
    sim.set_session("main")
    return history
