"""Command line: ./check <Cxx> [--tier quick|thorough] [--replay FILE] [--jobs N]"""

from __future__ import annotations

import argparse
import os
import sys


def main(argv: list[str] | None = None) -> int:
    ap = argparse.ArgumentParser(prog="check")
    ap.add_argument("prop", help="property id (C03 ...) or 'selftest'")
    ap.add_argument("--tier", default=os.environ.get("VERIF_TIER", "quick"), choices=["quick", "thorough"])
    ap.add_argument("--replay")
    ap.add_argument("--jobs", type=int, default=int(os.environ.get("FSSIM_JOBS", os.cpu_count() or 4)))
    ap.add_argument("--runs", type=int, help="override the number of runs (development)")
    ap.add_argument("--profiles", help="selftest: comma separated profile names")
    ap.add_argument("--n", type=int, default=200, help="selftest: seeds per profile")
    a = ap.parse_args(argv)
    seed = int(os.environ.get("VERIF_SEED", "1") or 1)

    from . import profiles, runner

    if a.prop == "selftest":
        from . import selftest

        return selftest.main(a, seed)
    if a.prop not in profiles.PROPERTY_PROFILE:
        print(f"no check for {a.prop}", file=sys.stderr)
        return 2
    pname = profiles.PROPERTY_PROFILE[a.prop]
    if pname == "crash" and "fsv_shim.so" not in os.environ.get("LD_PRELOAD", ""):
        # crash points inside engine calls need the syscall seam: re-exec under the LD_PRELOAD shim (built on demand)
        shim = os.path.join(runner.VERIF, "build", "fsv_shim.so")
        src = os.path.join(runner.VERIF, "fssim", "shim", "fsv_shim.c")
        if not os.path.exists(shim) or os.path.getmtime(shim) < os.path.getmtime(src):
            import subprocess

            os.makedirs(os.path.dirname(shim), exist_ok=True)
            subprocess.run(["gcc", "-shared", "-fPIC", "-O1", "-o", shim, src, "-ldl"], check=True)
        env = dict(os.environ, LD_PRELOAD=shim)
        os.execve(sys.executable, [sys.executable, "-W", "ignore", "-c", "import sys; from fssim.cli import main; sys.exit(main())", *(argv if argv is not None else sys.argv[1:])], env)
    if a.replay:
        return runner.replay_file(a.replay, pname, a.prop)
    # the parent never imports duckdb/fakesnow: read the SPEC without importing the profile's deps
    spec = profiles.spec(pname, a.prop)
    if a.runs:
        spec = dict(spec, runs={a.tier: a.runs})
    return runner.run_check(a.prop, pname, a.tier, seed, a.jobs, spec)


if __name__ == "__main__":
    sys.exit(main())
