"""The simulated world: one FakeSnow instance, sessions, cursors, the op executor and the observer.

Operations are JSON records {"s": session, "k": kind, ...}; `World.apply` is total: whatever
happens comes back as an outcome record, never as an exception (HarnessError excepted).
"""

from __future__ import annotations

import datetime as _dt
import decimal
import os
from typing import Any

from . import core

# --------------------------------------------------------------------------- value normalisation


def norm(v: Any) -> Any:
    """JSON-able, type-preserving rendering of a Python value handed out by a cursor."""
    if v is None or isinstance(v, (bool, str)):
        return v
    if isinstance(v, int):
        return v
    if isinstance(v, float):
        return {"t": "float", "v": repr(v)}
    if isinstance(v, decimal.Decimal):
        return {"t": "Decimal", "v": str(v)}
    if isinstance(v, _dt.datetime):
        return {"t": "datetime", "v": v.isoformat(), "tz": str(v.tzinfo) if v.tzinfo else None}
    if isinstance(v, _dt.date):
        return {"t": "date", "v": v.isoformat()}
    if isinstance(v, _dt.time):
        return {"t": "time", "v": v.isoformat()}
    if isinstance(v, (bytes, bytearray)):
        return {"t": "bytes", "v": bytes(v).hex()}
    if isinstance(v, (list, tuple)):
        return [norm(x) for x in v]
    if isinstance(v, dict):
        return {"t": "dict", "v": [[str(k), norm(x)] for k, x in v.items()]}
    return {"t": type(v).__name__, "v": repr(v)}


def norm_rows(rows: Any) -> list[Any]:
    out = []
    for r in rows:
        if isinstance(r, dict):
            out.append({"t": "dictrow", "v": [[k, norm(x)] for k, x in r.items()]})
        else:
            out.append([norm(x) for x in r])
    return out


def sort_key(row: Any) -> str:
    import json

    return json.dumps(row, sort_keys=True, default=repr)


def exc_record(e: BaseException) -> dict[str, Any]:
    rec: dict[str, Any] = {
        "ok": False,
        "exc": type(e).__name__,
        "mod": type(e).__module__,
        "msg": str(getattr(e, "msg", None) or (e.args[0] if e.args else ""))[:300],
    }
    for a in ("errno", "sqlstate"):
        if hasattr(e, a):
            rec[a] = getattr(e, a)
    return rec


def desc_record(desc: Any) -> Any:
    if desc is None:
        return None
    return [[d.name, d.type_code, d.precision, d.scale, d.internal_size, d.is_nullable] for d in desc]


# --------------------------------------------------------------------------- world


def _ep_expect_2003(cur: Any, sql: str, problems: list[str], tag: str) -> None:
    try:
        cur.execute(sql)
        problems.append(f"{tag}:succeeded")
    except BaseException as e:  # noqa: BLE001
        if type(e).__name__ != "ProgrammingError" or getattr(e, "errno", None) != 2003 or getattr(e, "sqlstate", None) != "42S02":
            problems.append(f"{tag}:{type(e).__name__}/{getattr(e, 'errno', None)}")


def ep_stale_schema_after_use_database(sim: Any) -> list[str]:
    """USE DATABASE moves away from the current schema; USE SCHEMA <old name> must then be judged in the NEW database."""
    from fakesnow.instance import FakeSnow

    fs = FakeSnow()
    problems: list[str] = []
    a = fs.connect(database="EP1", schema="ONLY1")
    fs.connect(database="EP2", schema="OTHER")
    cur = a.cursor()
    cur.execute("USE DATABASE EP2")
    _ep_expect_2003(cur, "USE SCHEMA ONLY1", problems, "use-schema-unqualified")
    _ep_expect_2003(cur, "USE SCHEMA EP2.ONLY1", problems, "use-schema-qualified")
    return problems


def ep_use_schema_after_foreign_drop(sim: Any) -> list[str]:
    """Another connection dropped the session's current schema: USE SCHEMA of that name refers to something missing."""
    from fakesnow.instance import FakeSnow

    fs = FakeSnow()
    problems: list[str] = []
    a = fs.connect(database="EP1", schema="GONE")
    b = fs.connect(database="EP1", schema="KEEP")
    b.cursor().execute("DROP SCHEMA EP1.GONE")
    cur = a.cursor()
    _ep_expect_2003(cur, "USE SCHEMA GONE", problems, "use-schema-unqualified")
    _ep_expect_2003(cur, "USE SCHEMA EP1.GONE", problems, "use-schema-qualified")
    return problems


EPISODES = {"stale-schema-after-use-database": ep_stale_schema_after_use_database, "use-schema-after-foreign-drop": ep_use_schema_after_foreign_drop}


class World:
    def __init__(self, sim: core.Sim, **fs_opts: Any) -> None:
        from fakesnow.instance import FakeSnow

        self.sim = sim
        self.scratch: str | None = None
        if fs_opts.get("db_path") == "<scratch>":
            World._n = getattr(World, "_n", 0) + 1
            self.scratch = scratch_dir(f"w{World._n}")
            sim.scratch = self.scratch
            fs_opts = dict(fs_opts, db_path=self.scratch)
        self.fs_opts = fs_opts
        self.fs = FakeSnow(**fs_opts)
        self.conns: dict[str, Any] = {}
        self.cursors: dict[tuple[str, int], Any] = {}

    # ---- executing one operation --------------------------------------------------------
    def apply(self, op: dict[str, Any]) -> dict[str, Any]:
        try:
            return self._apply(op)
        except core.HarnessError:
            raise
        except core.SimCrash:
            raise
        except BaseException as e:  # noqa: BLE001
            if isinstance(e, (KeyboardInterrupt, SystemExit)):
                raise
            return exc_record(e)

    def cursor(self, sid: str, idx: int, dict_cursor: bool = False) -> Any:
        key = (sid, idx)
        if key not in self.cursors:
            from snowflake.connector.cursor import DictCursor

            conn = self.conns[sid]
            self.cursors[key] = conn.cursor(DictCursor) if dict_cursor else conn.cursor()
        return self.cursors[key]

    def _apply(self, op: dict[str, Any]) -> dict[str, Any]:
        k = op["k"]
        sid = op["s"]
        if k == "restart":
            # a later patch()/process on the same db_path: everything of the old instance is gone
            from fakesnow.instance import FakeSnow

            self.fs.duck_conn.close()
            self.conns.clear()
            self.cursors.clear()
            self.fs = FakeSnow(**self.fs_opts)
            return {"ok": True}
        if k == "connect":
            kw = {x: op[x] for x in ("database", "schema", "session_parameters") if op.get(x) is not None}
            self.conns[sid] = self.fs.connect(**kw)
            for key in [c for c in self.cursors if c[0] == sid]:
                del self.cursors[key]
            c = self.conns[sid]
            return {"ok": True, "database": c.database, "schema": c.schema}
        if sid not in self.conns:
            return {"ok": False, "exc": "NoSession", "mod": "fssim", "msg": "no connection"}
        conn = self.conns[sid]
        if k == "exec":
            cur = self.cursor(sid, op.get("cur", 0), op.get("dict", False))
            try:
                if op.get("params") is not None:
                    cur.execute(op["sql"], op["params"])
                else:
                    cur.execute(op["sql"])
            except BaseException as e:  # noqa: BLE001
                if isinstance(e, (KeyboardInterrupt, SystemExit, core.SimCrash, core.HarnessError)):
                    raise
                rec = exc_record(e)
                rec["cursor_sqlstate"] = cur.sqlstate
                return rec
            out: dict[str, Any] = {"ok": True}
            if op.get("fetch", True):
                out["rows"] = norm_rows(cur.fetchall())
            out["rowcount"] = cur.rowcount
            out["sqlstate"] = cur.sqlstate
            if op.get("desc"):
                try:
                    out["desc"] = desc_record(cur.description)
                except BaseException as e:  # noqa: BLE001
                    out["desc_exc"] = exc_record(e)
            return out
        if k == "episode":
            # a self-contained scenario on a fresh instance of its own (it shares nothing with the modelled sessions)
            return {"ok": True, "problems": EPISODES[op["name"]](self.sim)}
        if k == "executemany":
            cur = self.cursor(sid, op.get("cur", 0))
            cur.executemany(op["sql"], op["seqparams"])
            return {"ok": True, "rows": norm_rows(cur.fetchall()), "rowcount": cur.rowcount}
        if k == "execute_string":
            curs = conn.execute_string(op["sql"])
            return {"ok": True, "results": [{"rows": norm_rows(c.fetchall()), "rowcount": c.rowcount} for c in curs]}
        if k == "write_pandas":
            import pandas as pd
            import snowflake.connector.pandas_tools as pt

            from fakesnow.pandas_tools import write_pandas as fake_wp

            df = pd.DataFrame(op["rows"], columns=op["cols"])
            if op.get("index") is not None:
                df.index = op["index"]  # row labels are not data: repeated or shuffled labels must not matter
            fn = pt.write_pandas if type(pt.write_pandas).__name__ == "MagicMock" else fake_wp  # the patched entry point when inside patch()
            ok, _chunks, nrows, _ = fn(conn, df, op["table"], **({"database": op["database"], "schema": op["schema"]} if op.get("database") else {}))
            return {"ok": bool(ok), "rows": [[nrows]], "rowcount": nrows}
        if k == "commit":
            conn.commit()
            return {"ok": True}
        if k == "rollback":
            conn.rollback()
            return {"ok": True}
        if k == "close":
            conn.close()
            return {"ok": True}
        if k == "ctx":
            return {"ok": True, "database": conn.database, "schema": conn.schema}
        if k == "fetchone":
            r = self.cursor(sid, op.get("cur", 0)).fetchone()
            return {"ok": True, "rows": None if r is None else norm_rows([r])}
        if k == "fetchmany":
            cur = self.cursor(sid, op.get("cur", 0))
            r = cur.fetchmany(op["n"]) if op.get("n") is not None else cur.fetchmany()
            return {"ok": True, "rows": norm_rows(r)}
        if k == "fetchall":
            return {"ok": True, "rows": norm_rows(self.cursor(sid, op.get("cur", 0)).fetchall())}
        if k == "arraysize":
            self.cursor(sid, op.get("cur", 0)).arraysize = op["n"]
            return {"ok": True}
        if k == "rowcount":
            return {"ok": True, "rowcount": self.cursor(sid, op.get("cur", 0)).rowcount}
        if k == "description":
            return {"ok": True, "desc": desc_record(self.cursor(sid, op.get("cur", 0)).description)}
        if k == "describe":
            return {"ok": True, "desc": desc_record(self.cursor(sid, op.get("cur", 0)).describe(op["sql"]))}
        if k == "sqlstate":
            return {"ok": True, "sqlstate": self.cursor(sid, op.get("cur", 0)).sqlstate}
        if k == "pandas":
            df = self.cursor(sid, op.get("cur", 0)).fetch_pandas_all()
            return {"ok": True, "columns": [str(c) for c in df.columns], "rows": norm_rows(df.itertuples(index=False, name=None))}
        raise core.HarnessError(f"unknown op kind {k}")

    # ---- observer (instantaneous in simulated time; not events) -------------------------
    def raw_root(self) -> Any:
        return core.raw(self.fs.duck_conn)

    def observe(self, with_rows: bool = True, with_sessions: bool = True) -> dict[str, Any]:
        """Σ of DESIGN.md appendix B, from the engine's own system functions through an un-proxied
        cursor (committed view) plus each live session's context through the public API."""
        try:
            from fakesnow.instance import GLOBAL_DATABASE_NAME
        except ImportError:  # renamed by a refactoring: fall back to the documented name
            GLOBAL_DATABASE_NAME = "_fs_global"

        cur = self.raw_root().cursor()
        try:
            internal_db = {"memory", "system", "temp", GLOBAL_DATABASE_NAME.lower()}
            dbs = sorted(
                r[0] for r in cur.execute("select database_name from duckdb_databases() where not internal").fetchall()
                if r[0].lower() not in internal_db
            )
            skip_schema = {"information_schema", "pg_catalog", "main"}
            schemas = sorted(
                (r[0], r[1])
                for r in cur.execute("select database_name, schema_name from duckdb_schemas() where not internal").fetchall()
                if r[0] in dbs and r[1].lower() not in skip_schema
            )
            cols: dict[tuple[str, str, str], list[Any]] = {}
            for d, s, t, c, ty, nullable in cur.execute(
                "select database_name, schema_name, table_name, column_name, data_type, is_nullable "
                "from duckdb_columns() where not internal order by database_name, schema_name, table_name, column_index"
            ).fetchall():
                cols.setdefault((d, s, t), []).append([c, ty, bool(nullable)])
            tables = sorted(
                (r[0], r[1], r[2])
                for r in cur.execute("select database_name, schema_name, table_name from duckdb_tables() where not internal").fetchall()
                if r[0] in dbs and r[1].lower() not in ("information_schema", "pg_catalog") and not r[2].startswith("_fs_")
            )
            views = sorted(
                (r[0], r[1], r[2])
                for r in cur.execute("select database_name, schema_name, view_name from duckdb_views() where not internal").fetchall()
                if r[0] in dbs and r[1].lower() not in ("information_schema", "pg_catalog")
            )
            snap: dict[str, Any] = {
                "dbs": dbs,
                "schemas": [list(x) for x in schemas],
                "tables": {".".join(t): cols.get(t, []) for t in tables},
                "views": {".".join(v): cols.get(v, []) for v in views},
            }
            if with_rows:
                rows = {}
                for d, s, t in tables:
                    rs = cur.execute(f'select * from "{d}"."{s}"."{t}"').fetchall()
                    rows[f"{d}.{s}.{t}"] = sorted(norm_rows(rs), key=sort_key)
                snap["rows"] = rows
        finally:
            cur.close()
        if with_sessions:
            snap["sessions"] = {sid: self.session_ctx(sid) for sid in sorted(self.conns)}
        return snap

    def session_ctx(self, sid: str) -> dict[str, Any]:
        conn = self.conns[sid]
        rec: dict[str, Any] = {"database": conn.database, "schema": conn.schema}
        if conn.is_closed():
            rec["closed"] = True
            return rec
        with self.sim.quiet():
            try:
                rec["engine"] = list(
                    core.raw(conn._duck_conn).execute("select current_database(), current_schema()").fetchall()[0]
                )
            except BaseException as e:  # noqa: BLE001
                rec["engine"] = ["!" + type(e).__name__]
        return rec

    def close(self) -> None:
        with self.sim.quiet():
            try:
                self.fs.duck_conn.close()
            except BaseException:  # noqa: BLE001, S110
                pass
        if self.scratch:
            import shutil

            shutil.rmtree(self.scratch, ignore_errors=True)


def scratch_dir(tag: str) -> str:
    base = "/dev/shm" if os.path.isdir("/dev/shm") and os.access("/dev/shm", os.W_OK) else os.environ.get("TMPDIR", "/tmp")
    d = os.path.join(base, f"fssim-{os.getpid()}-{tag}")
    os.makedirs(d, exist_ok=True)
    return d
