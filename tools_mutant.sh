#!/bin/sh
# usage: tools_mutant.sh <patch-file> <check-id> [runs]  -- apply a patch to /repo, run the check, always revert
set -u
P="$1"; C="$2"; R="${3:-}"
cd /repo && git diff --quiet || { echo "/repo not clean"; exit 3; }
git -C /repo apply "$P" || { echo "patch does not apply"; exit 3; }
cd /verif
if [ -n "$R" ]; then ./check "$C" --runs "$R" > /tmp/mutant_out.txt 2>&1; else ./check "$C" > /tmp/mutant_out.txt 2>&1; fi
rc=$?
git -C /repo checkout -- . 
grep -E "^VIOLATION|signature|^\[" /tmp/mutant_out.txt | cut -c1-220 | head -12
echo "exit=$rc"
