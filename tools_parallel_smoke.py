"""Supplementary smoke test with REAL free-running threads (not a registered check, not part of the verdicts):
N threads released by a barrier connect to the same database - existing or new - of one instance, 40 rounds.
The simulator treats one engine call as atomic, so engine-level conflicts between genuinely overlapping calls are
outside what it can show (DESIGN.md section 10); this script is how such a conflict (a regression of an earlier
repair) was confirmed.   usage: PYTHONPATH=/repo /venv/bin/python tools_parallel_smoke.py [N] [new]"""
import sys, threading, collections
import fakesnow
N=int(sys.argv[1]) if len(sys.argv)>1 else 4
errs=collections.Counter()
for rnd in range(40):
    fs=fakesnow.instance.FakeSnow()
    if "new" not in sys.argv:
        fs.connect(database="db1", schema="s1")  # the database exists already
    bar=threading.Barrier(N)
    def work(i):
        try:
            bar.wait()
            c=fs.connect(database="db1", schema="s1")
            c.cursor().execute("select 1").fetchall()
        except Exception as e:
            errs[type(e).__name__+": "+str(e)[:90]]+=1
    ts=[threading.Thread(target=work,args=(i,)) for i in range(N)]
    [t.start() for t in ts]; [t.join() for t in ts]
print(dict(errs) or "no errors")
