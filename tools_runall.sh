#!/bin/bash
# usage: tools_runall.sh [tier]   -- every claimed check on the current tree (VERIF_SEED from the environment)
TIER="${1:-quick}"
cd "$(dirname "$0")"
for p in $(python3 -c "import json;print(' '.join(c['property_id'] for c in json.load(open('MANIFEST.json'))['checks']))"); do
  ./check $p --tier $TIER > /tmp/runall_$p.txt 2>&1; rc=$?
  echo "$p exit=$rc $(tail -1 /tmp/runall_$p.txt | cut -c1-170)"
  grep -A1 "^VIOLATION" /tmp/runall_$p.txt | grep signature | head -5
  grep "^HARNESS-ERROR" /tmp/runall_$p.txt | head -2 | cut -c1-200
done
