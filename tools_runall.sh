#!/bin/bash
# usage: tools_runall.sh [tier]   -- every claimed check on the current tree (VERIF_SEED from the environment)
TIER="${1:-quick}"
cd "$(dirname "$0")"
T=$(mktemp -d /tmp/runall.XXXXXX)   # per invocation: a soak and a manual run must not share output files
for p in ${RUNALL_ONLY:-$(python3 -c "import json;print(' '.join(c['property_id'] for c in json.load(open('MANIFEST.json'))['checks']))")}; do
  ./check $p --tier $TIER > $T/$p.txt 2>&1; rc=$?
  echo "$p exit=$rc $(tail -1 $T/$p.txt | cut -c1-170)"
  if [ $rc -ne 0 ]; then
    # keep what a later triage needs even if the run's snapshot is removed
    grep -E "^VIOLATION|^  signature|^  detail" $T/$p.txt | cut -c1-700 | head -12
    mkdir -p "${SOAK_KEEP:=/tmp/soak_keep}" && for f in $(grep "^VIOLATION" $T/$p.txt | sed 's/.*replay=//'); do cp "$f" "$SOAK_KEEP/" 2>/dev/null; done
  fi
  grep "^HARNESS-ERROR" $T/$p.txt | head -2 | cut -c1-200
done
