#!/bin/bash
# usage: tools_runall.sh [tier]   -- every claimed check on the current tree (VERIF_SEED from the environment)
TIER="${1:-quick}"
cd "$(dirname "$0")"
for p in $(python3 -c "import json;print(' '.join(c['property_id'] for c in json.load(open('MANIFEST.json'))['checks']))"); do
  ./check $p --tier $TIER > /tmp/runall_$p.txt 2>&1; rc=$?
  echo "$p exit=$rc $(tail -1 /tmp/runall_$p.txt | cut -c1-170)"
  if [ $rc -ne 0 ]; then
    # keep what a later triage needs even if the run's snapshot is removed
    grep -E "^VIOLATION|^  signature|^  detail" /tmp/runall_$p.txt | cut -c1-700 | head -12
    mkdir -p "${SOAK_KEEP:=/tmp/soak_keep}" && for f in $(grep "^VIOLATION" /tmp/runall_$p.txt | sed 's/.*replay=//'); do cp "$f" "$SOAK_KEEP/" 2>/dev/null; done
  fi
  grep "^HARNESS-ERROR" /tmp/runall_$p.txt | head -2 | cut -c1-200
done
