"""Regenerate the seeded-change table of DESIGN.md section 9 from seeded/INDEX.json + seeded/<id>/meta.json.
usage: /venv/bin/python tools_design_table.py   (rewrites the block between the seeded-table markers)"""
import json, os, re

V = "/verif"
I = json.load(open(f"{V}/seeded/INDEX.json"))
rows = ["| seeded change | property | needs to manifest | detected by (quick tier) | history / what was strengthened | first signature |", "|---|---|---|---|---|---|"]
for sid, info in I.items():
    mp = f"{V}/seeded/{sid}/meta.json"
    meta = json.load(open(mp)) if os.path.exists(mp) else {}
    ran = meta.get("ran", [])
    det = ", ".join(r["check"] for r in ran if r.get("detected")) or "not detected"
    sig = next((r["signatures"][0] for r in ran if r.get("signatures")), "")
    rows.append(f"| {sid} | {info['property']} | {info['needs']} | {det} | {info.get('history', '')} | `{sig}` |")
block = "<!-- seeded-table:begin -->\n" + "\n".join(rows) + "\n<!-- seeded-table:end -->"
p = f"{V}/DESIGN.md"
s = open(p).read()
if "<!-- seeded-table:begin -->" in s:
    s = re.sub(r"<!-- seeded-table:begin -->.*?<!-- seeded-table:end -->", lambda m: block, s, flags=re.S)
else:
    # first use: replace the existing markdown table that starts with the header row
    start = s.index("| seeded change | property | needs to manifest |")
    end = s.index("\n\n", start)
    s = s[:start] + block + s[end:]
open(p, "w").write(s)
print(len(rows) - 2, "rows")
