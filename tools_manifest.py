"""Regenerates MANIFEST.json from the profile SPECs (run: /venv/bin/python tools_manifest.py)."""
import json, os, sys
sys.path.insert(0, os.path.dirname(os.path.abspath(__file__)))
from fssim import profiles

NA = {
 "C01": "pure function of (column type, value, ingestion path): no schedule, fault, crash point, clock or history for a simulator to decide; deciding it is input generation over type domains (DESIGN.md section 7)",
 "C02": "metamorphic relation on the spelling of one statement (inputs/programs): nothing for a scheduler or fault plan to decide (DESIGN.md section 7)",
 "C08": "pure function of (statement, parameter values, paramstyle): an all-inputs escaping property with nothing to schedule or fault (DESIGN.md section 7)",
 "C10": "pure expression semantics over argument domains; needs an oracle of Snowflake's functions and input generation, not a simulator (DESIGN.md section 7)",
 "C11": "pure document x path x context input product; no schedule, fault or history (DESIGN.md section 7)",
}

def main():
    checks = []
    claimed = sorted(profiles.PROPERTY_PROFILE)
    for pid in claimed:
        pname = profiles.PROPERTY_PROFILE[pid]
        spec = profiles.spec(pname, pid)
        checks.append({
            "property_id": pid,
            "quick_cmd": f"./check {pid} --tier quick",
            "thorough_cmd": f"./check {pid} --tier thorough",
            "evidence_file": f"/verif/evidence/{pid}.json",
            "replay_cmd_template": f"./check {pid} --replay {{path}}",
            "engine": "fssim",
            "level_claimed": {"category": spec.get("level", "exploration"), "text": spec["level_text"], "design_ref": spec.get("design_ref", "DESIGN.md section 7")},
            "level_note": spec["level_note"],
            "technique": spec["technique"],
        })
    na = [{"property_id": k, "reason": v} for k, v in sorted(NA.items()) if k not in claimed]
    for pid in [f"C{i:02d}" for i in range(1, 21)]:
        if pid not in claimed and pid not in NA:
            na.append({"property_id": pid, "reason": "check not built yet in this round (planned in DESIGN.md section 7); not claimed until its check exists"})
    m = {
        "version": 1,
        "setup_cmd": "sh ./setup.sh",
        "hooks": {
            "guard": "FAKESNOW_VERIF",
            "enable": "no source hook is needed: all seams are installed from outside /repo by fssim.core.install() (duckdb.connect proxy, threading.Lock factory, transport adapter); the guard name is reserved and unused",
            "baseline_off_cmd": "cd /repo && /venv/bin/python -m pytest -ra -q -p no:cacheprovider --timeout=900 --continue-on-collection-errors",
            "source_commits": [],
            "add_only": True,
        },
        "engines": [{"name": "fssim", "path": "/verif/fssim", "serves_properties": claimed,
                     "kind_free_text": "deterministic simulator: seeded baton scheduler over real threads at the duckdb.connect seam, in-process ASGI transport, forked crash children with an LD_PRELOAD syscall shim, executable reference models, ddmin replay files"}],
        "checks": checks,
        "not_applicable": sorted(na, key=lambda x: x["property_id"]),
        "notes": "Exit codes of ./check: 0 held (KNOWN-FINDING lines allowed), 1 new violation (VIOLATION line), 2 harness error (never a verdict). known_findings.json is committed and never written at run time.",
    }
    with open(os.path.join(os.path.dirname(os.path.abspath(__file__)), "MANIFEST.json"), "w") as f:
        json.dump(m, f, indent=1)
    print("claimed", claimed)

main()
