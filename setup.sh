#!/bin/sh
# Offline set-up after a fresh restore: build the crash shim (if its source exists). Python needs no build.
HERE="$(cd "$(dirname "$0")" && pwd)"
mkdir -p "$HERE/build" "$HERE/evidence" "$HERE/replays"
if [ -f "$HERE/fssim/shim/fsv_shim.c" ]; then
  gcc -shared -fPIC -O1 -o "$HERE/build/fsv_shim.so" "$HERE/fssim/shim/fsv_shim.c" -ldl || exit 1
fi
/venv/bin/python -c "import duckdb, sqlglot, snowflake.connector" || exit 1
echo setup ok
