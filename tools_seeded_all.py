"""Run every seeded mutant under /verif/seeded against its checks (apply to /repo, run, ALWAYS revert) and
rewrite seeded/<id>/meta.json 'ran' sections + seeded/SUMMARY.md.  usage: /venv/bin/python tools_seeded_all.py [id ...]"""
import json, os, subprocess, sys, time

V = "/verif"
INDEX = json.load(open(f"{V}/seeded/INDEX.json"))
only = sys.argv[1:]
rows = []
for sid, info in INDEX.items():
    d = f"{V}/seeded/{sid}"
    meta_p = f"{d}/meta.json"
    meta = json.load(open(meta_p)) if os.path.exists(meta_p) else {}
    if only and sid not in only:
        rows.append((sid, info, meta.get("ran", [])))
        continue
    assert subprocess.run(["git", "-C", "/repo", "diff", "--quiet"]).returncode == 0, "/repo not clean"
    ran = []
    try:
        subprocess.run(["git", "-C", "/repo", "apply", f"{d}/patch.diff"], check=True)
        for chk in info["checks"]:
            t0 = time.time()
            p = subprocess.run([f"{V}/check", chk, "--tier", "quick"], capture_output=True, text=True, cwd=V)
            sigs = [ln.strip()[len("signature: "):].split("  (runs")[0] for ln in p.stdout.splitlines() if ln.strip().startswith("signature: ")]
            ran.append({"check": chk, "tier": "quick", "cmd": f"git -C /repo apply seeded/{sid}/patch.diff && ./check {chk} --tier quick; git -C /repo checkout -- .",
                        "exit": p.returncode, "detected": p.returncode == 1, "signatures": sigs[:6], "wall_s": round(time.time() - t0, 1)})
            print(sid, chk, "exit", p.returncode, sigs[:2], flush=True)
    finally:
        subprocess.run(["git", "-C", "/repo", "checkout", "--", "."])
        subprocess.run(["git", "-C", "/repo", "clean", "-fdq", "fakesnow"])
    meta.update({"id": sid, "property": info["property"], "needs": info["needs"], "origin": info.get("origin", "independent sub-agent given only the property text and a scratch worktree"),
                 "confirmed": info.get("confirmed", "patch applies to a clean checkout; baseline suite unchanged (196 passed, 2 known failures); demo.py exits 1 with the change and 0 without (run by tools_seeded.sh in the scratch worktree)"),
                 "history": info.get("history", ""), "ran": ran})
    json.dump(meta, open(meta_p, "w"), indent=1)
    rows.append((sid, info, ran))
with open(f"{V}/seeded/SUMMARY.md", "w") as f:
    f.write("| seeded change | property | needs to manifest | detected by (quick tier) | first signature |\n|---|---|---|---|---|\n")
    for sid, info, ran in rows:
        det = ", ".join(r["check"] for r in ran if r.get("detected")) or "NOT DETECTED"
        sig = next((r["signatures"][0] for r in ran if r.get("signatures")), "")
        f.write(f"| {sid} | {info['property']} | {info['needs']} | {det} | `{sig}` |\n")
print(open(f"{V}/seeded/SUMMARY.md").read())
