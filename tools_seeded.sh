#!/bin/bash
# usage: tools_seeded.sh <Cxx> <seeded-id> [check ids to run, default: the owning check]
# 1. confirms a sub-agent's change in its scratch worktree (tests unchanged, demo fails with / passes without)
# 2. stores it under /verif/seeded/<id>/   3. applies it to /repo, runs the checks, ALWAYS reverts
set -u
P="$1"; ID="$2"; shift 2; CHECKS="${*:-$P}"
WT=${WTPREFIX:-/tmp/wt}-$P; OUT=${OUTPREFIX:-/tmp/out}-$P; DEST=/verif/seeded/$ID
[ -f $OUT/patch.diff ] || { echo "no patch"; exit 3; }
cd $WT || exit 3
git checkout -q -- . ; git clean -fdq fakesnow 2>/dev/null; git apply $OUT/patch.diff || { echo "patch does not apply to clean worktree"; exit 3; }
T=$(PYTHONPATH=$WT timeout 900 /venv/bin/python -m pytest -q -p no:cacheprovider 2>&1 | tail -1)
PYTHONPATH=$WT timeout 300 /venv/bin/python $OUT/demo.py > /tmp/demo_with.txt 2>&1; RC_WITH=$?
git checkout -q -- . ; git clean -fdq fakesnow 2>/dev/null
PYTHONPATH=$WT timeout 300 /venv/bin/python $OUT/demo.py > /tmp/demo_without.txt 2>&1; RC_WITHOUT=$?
git apply $OUT/patch.diff
echo "tests: $T | demo with change: exit $RC_WITH | without: exit $RC_WITHOUT"
mkdir -p $DEST; cp $OUT/patch.diff $OUT/demo.py $DEST/; cp $OUT/notes.md $DEST/ 2>/dev/null
cd /repo && git diff --quiet || { echo "/repo not clean"; exit 3; }
git -C /repo apply $DEST/patch.diff || { echo "patch does not apply to /repo"; exit 3; }
RES=""
for C in $CHECKS; do
  cd /verif && ./check $C > /tmp/seeded_$C.txt 2>&1; rc=$?
  SIGS=$(grep -A1 "^VIOLATION" /tmp/seeded_$C.txt | grep signature | sed 's/  signature: //' | cut -c1-150 | head -4 | tr '\n' ';')
  echo "check $C exit=$rc  $SIGS"
  RES="$RES{\"check\":\"$C\",\"exit\":$rc,\"signatures\":\"$(echo $SIGS | sed 's/"/\\"/g')\"},"
done
git -C /repo checkout -- . ; git -C /repo clean -fdq fakesnow 2>/dev/null
git -C /repo diff --quiet && echo "/repo restored"
echo "{\"tests\":\"$T\",\"demo_with\":$RC_WITH,\"demo_without\":$RC_WITHOUT,\"checks\":[${RES%,}]}" > $DEST/result.json
